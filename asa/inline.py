""" Inlining of private helpers.

    A rule is anchored in a function.  When a maintainer moves a few of that
    function's statements into a private helper (`_write_text(handle, text)`,
    `self._find_section_for(cds)`), the statements the rule reasons about leave
    the anchor.  `inline_function` gives the rule the function it would have
    seen before the extraction: every statement-level call of a private helper
    of the same module (or of the same class, through `self` / `cls`) is
    replaced by the helper's body, parameters bound to the arguments, and
    `return X` turned into the assignment / return / expression statement the
    call stood in.  Early returns are restructured into if/else nests.

    The transformation is semantics-preserving under the conditions checked
    here (no generator, no decorators other than staticmethod/classmethod, no
    `return` inside a loop / try / with of the helper, no *args / **kwargs, no
    recursion); a helper outside them is left as a call.  Statement order and
    evaluation order are kept: arguments that are not plain names, attribute
    chains or constants are bound to fresh locals first.
"""

from __future__ import annotations

import ast
from typing import Dict, List, Optional, Set, Tuple

from .astutil import clone, link_parents


class NotInlinable(Exception):
    pass


def _contains_return(node: ast.AST) -> bool:
    stack = [node]
    while stack:
        cur = stack.pop()
        if isinstance(cur, ast.Return):
            return True
        if isinstance(cur, (ast.FunctionDef, ast.AsyncFunctionDef, ast.Lambda, ast.ClassDef)) and cur is not node:
            continue
        stack.extend(ast.iter_child_nodes(cur))
    return False


def _structure(stmts: List[ast.stmt], sink) -> Tuple[List[ast.stmt], bool]:
    """ statement list with every `return X` replaced by sink(X); code after an if that may return is moved into
        the arms that fall through.  Returns (statements, every path ended in a return) """
    out: List[ast.stmt] = []
    for index, stmt in enumerate(stmts):
        if isinstance(stmt, ast.Return):
            out += sink(stmt.value, stmt)
            return out, True
        if isinstance(stmt, ast.If) and _contains_return(stmt):
            rest = stmts[index + 1:]
            body, body_done = _structure(stmt.body, sink)
            if not body_done:
                more, body_done = _structure(clone(rest), sink)
                body += more
            orelse, else_done = _structure(stmt.orelse, sink)
            if not else_done:
                more, else_done = _structure(clone(rest), sink)
                orelse += more
            new = ast.If(test=stmt.test, body=body or [ast.Pass()], orelse=orelse)
            ast.copy_location(new, stmt)
            out.append(new)
            return out, body_done and else_done
        if _contains_return(stmt):
            raise NotInlinable("return inside a loop, try or with block")
        out.append(stmt)
    return out, False


def _simple(expr: ast.AST) -> bool:
    if isinstance(expr, (ast.Name, ast.Constant)):
        return True
    if isinstance(expr, ast.Attribute):
        return _simple(expr.value)
    return False


def _stored_names(func: ast.AST) -> Set[str]:
    names: Set[str] = set()
    for node in ast.walk(func):
        if isinstance(node, ast.Name) and isinstance(node.ctx, (ast.Store, ast.Del)):
            names.add(node.id)
        elif isinstance(node, ast.arg):
            names.add(node.arg)
    return names


class _Rename(ast.NodeTransformer):
    def __init__(self, names: Dict[str, str], subst: Dict[str, ast.AST]) -> None:
        self.names = names
        self.subst = subst

    def visit_Name(self, node: ast.Name) -> ast.AST:
        if node.id in self.subst and isinstance(node.ctx, ast.Load):
            return clone(self.subst[node.id])
        if node.id in self.names:
            new = ast.Name(id=self.names[node.id], ctx=node.ctx)
            return ast.copy_location(new, node)
        return node

    def visit_arg(self, node: ast.arg) -> ast.AST:
        if node.arg in self.names:
            node.arg = self.names[node.arg]
        return node


class Inliner:
    def __init__(self, repo, rel: str, qual: str, depth: int = 2, only: Optional[Set[str]] = None) -> None:
        self.repo = repo
        self.rel = rel
        self.qual = qual
        self.depth = depth
        self.only = only
        self.counter = 0
        self.inlined: List[str] = []
        self.functions = dict(repo.functions(rel))
        self.class_prefix = qual.rsplit(".", 1)[0] if "." in qual else ""

    # ------------------------------------------------------------------
    def _callee(self, call: ast.Call) -> Optional[Tuple[str, ast.FunctionDef, bool]]:
        """ (qualified name, function, drop first parameter) """
        func = call.func
        if isinstance(func, ast.Name):
            name = func.id
            target = self.functions.get(name)
            if target is not None and name.startswith("_") and not name.startswith("__"):
                return name, target, False
            # a function nested in the anchored function, when the caller asked for it by name
            nested = self.functions.get(f"{self.qual}.{name}")
            if nested is not None and ((self.only is not None and name in self.only) or name in getattr(self, "fresh_nested", ())):
                return f"{self.qual}.{name}", nested, False
            return None
        if isinstance(func, ast.Attribute) and isinstance(func.value, ast.Name) and func.value.id in ("self", "cls") \
                and func.attr.startswith("_") and not func.attr.startswith("__"):
            prefix = self.class_prefix
            while prefix:
                qual = f"{prefix}.{func.attr}"
                target = self.functions.get(qual)
                if target is not None:
                    static = any(isinstance(d, ast.Name) and d.id == "staticmethod" for d in target.decorator_list)
                    return qual, target, not static
                prefix = prefix.rsplit(".", 1)[0] if "." in prefix else ""
        return None

    def _expand(self, call: ast.Call, sink, caller_names: Set[str], level: int) -> Optional[List[ast.stmt]]:
        found = self._callee(call)
        if found is None:
            return None
        qual, target, drop_first = found
        if qual == self.qual or (self.only is not None and qual.split(".")[-1] not in self.only):
            return None
        if any(not (isinstance(d, ast.Name) and d.id in ("staticmethod", "classmethod")) for d in target.decorator_list):
            return None
        args = target.args
        if args.vararg or args.kwarg or args.posonlyargs:
            return None
        if any(isinstance(n, (ast.Yield, ast.YieldFrom, ast.Await, ast.Global, ast.Nonlocal)) for n in ast.walk(target)):
            return None
        if any(isinstance(a, ast.Starred) for a in call.args) or any(k.arg is None for k in call.keywords):
            return None
        params = [a.arg for a in args.args]
        receiver: Optional[ast.AST] = None
        if drop_first:
            if not params:
                return None
            receiver = call.func.value  # type: ignore[attr-defined]
            self_name, params = params[0], params[1:]
        kwonly = [a.arg for a in args.kwonlyargs]
        if len(call.args) > len(params):
            return None
        binding: Dict[str, ast.AST] = dict(zip(params, call.args))
        for kw in call.keywords:
            if kw.arg in binding or kw.arg not in params + kwonly:
                return None
            binding[kw.arg] = kw.value
        defaults = dict(zip(params[len(params) - len(args.defaults):], args.defaults))
        for name, default in zip(kwonly, args.kw_defaults):
            if default is not None:
                defaults[name] = default
        for name in params + kwonly:
            if name not in binding:
                if name not in defaults:
                    return None
                binding[name] = defaults[name]
        body = [st for st in target.body
                if not (isinstance(st, ast.Expr) and isinstance(st.value, ast.Constant) and isinstance(st.value.value, str))]
        body = clone(body)
        stored = set()
        for st in body:
            stored |= _stored_names(st)
        # nested function parameters are stores too (handled by _stored_names through ast.arg)
        self.counter += 1
        tag = f"__inl{self.counter}"
        # locals brought in by earlier expansions are the caller's names now: a second expansion of the same helper
        # must not share them (flow-insensitive readers would merge the two)
        caller_names = set(caller_names) | getattr(self, "introduced", set())
        subst: Dict[str, ast.AST] = {}
        renames: Dict[str, str] = {}
        prologue: List[ast.stmt] = []
        if drop_first and receiver is not None:
            subst[self_name] = receiver
        for name in params + kwonly:
            value = binding[name]
            if _simple(value) and name not in stored:
                subst[name] = value
            else:
                fresh = name if (name not in caller_names and name not in stored) else name + tag
                if isinstance(value, ast.Name) and value.id == fresh:
                    continue
                renames[name] = fresh
                assign = ast.Assign(targets=[ast.Name(id=fresh, ctx=ast.Store())], value=clone(value))
                ast.copy_location(assign, call)
                ast.fix_missing_locations(assign)
                prologue.append(assign)
        for name in sorted(stored):
            if name in renames or name in subst:
                continue
            if name in caller_names:
                renames[name] = name + tag
        renamer = _Rename(renames, subst)
        body = [renamer.visit(st) for st in body]
        try:
            new_body, done = _structure(body, sink)
        except NotInlinable:
            return None
        if not done:
            new_body += sink(None, call)
        self.inlined.append(qual)
        self.introduced = getattr(self, "introduced", set()) | {renames.get(n, n) for n in stored} | set(renames.values())
        result = prologue + new_body
        if level < self.depth:
            result = self._block(result, caller_names | set(renames.values()) | stored, level + 1)
        return result or [ast.copy_location(ast.Pass(), call)]

    # ------------------------------------------------------------------
    def _first_helper_call(self, test: ast.AST) -> Optional[ast.Call]:
        """ the helper call that an `if` test evaluates first and unconditionally, if any """
        if isinstance(test, ast.Call) and self._callee(test) is not None:
            return test
        if isinstance(test, ast.UnaryOp) and isinstance(test.op, ast.Not):
            return self._first_helper_call(test.operand)
        if isinstance(test, ast.BoolOp):
            return self._first_helper_call(test.values[0])
        if isinstance(test, ast.Compare):
            return self._first_helper_call(test.left)
        return None

    def _comprehension_loop(self, stmt: ast.stmt, caller_names: Set[str]) -> Optional[List[ast.stmt]]:
        """ `return [x for x in xs if not _fresh(x)]` (also assigned to a name): when the filter calls a helper the
            reference tree did not have, the comprehension is spelled as the loop it abbreviates, so that the helper's
            body can take the place of the call """
        value = getattr(stmt, "value", None)
        if not (isinstance(stmt, (ast.Return, ast.Assign)) and isinstance(value, ast.ListComp) and len(value.generators) == 1):
            return None
        gen = value.generators[0]
        if gen.is_async or len(gen.ifs) != 1 or not isinstance(gen.target, ast.Name):
            return None
        first = self._first_helper_call(gen.ifs[0])
        if first is None or self._callee(first)[0].split(".")[-1] not in getattr(self, "fresh_helpers", ()):
            return None
        if isinstance(stmt, ast.Assign) and not (len(stmt.targets) == 1 and isinstance(stmt.targets[0], ast.Name)):
            return None
        self._if_counter = getattr(self, "_if_counter", 0) + 1
        acc = stmt.targets[0].id if isinstance(stmt, ast.Assign) else f"kept__comp{self._if_counter}"  # type: ignore[attr-defined]
        var = gen.target.id
        new_var = var if var not in caller_names else f"{var}__comp{self._if_counter}"
        renamer = _Rename({var: new_var}, {})
        elt = renamer.visit(clone(value.elt))
        cond = renamer.visit(clone(gen.ifs[0]))
        init = ast.Assign(targets=[ast.Name(id=acc, ctx=ast.Store())], value=ast.List(elts=[], ctx=ast.Load()))
        append = ast.Expr(value=ast.Call(func=ast.Attribute(value=ast.Name(id=acc, ctx=ast.Load()), attr="append", ctx=ast.Load()),
                                         args=[elt], keywords=[]))
        loop = ast.For(target=ast.Name(id=new_var, ctx=ast.Store()), iter=clone(gen.iter),
                       body=[ast.If(test=cond, body=[append], orelse=[])], orelse=[])
        out: List[ast.stmt] = [init, loop]
        if isinstance(stmt, ast.Return):
            out.append(ast.Return(value=ast.Name(id=acc, ctx=ast.Load())))
        for node in out:
            ast.copy_location(node, stmt)
            ast.fix_missing_locations(node)
        return out

    def _stmt(self, stmt: ast.stmt, caller_names: Set[str], level: int) -> List[ast.stmt]:
        call: Optional[ast.Call] = None
        sink = None
        as_loop = self._comprehension_loop(stmt, caller_names)
        if as_loop is not None:
            return self._block(as_loop, caller_names, level)
        if isinstance(stmt, ast.If):
            # `if _helper(x) and ...:` - the helper's value is computed first anyway: name it, then test the name
            first = self._first_helper_call(stmt.test)
            one_liner = False
            if first is not None:
                callee_body = [st for st in self._callee(first)[1].body
                               if not (isinstance(st, ast.Expr) and isinstance(st.value, ast.Constant) and isinstance(st.value.value, str))]
                one_liner = len(callee_body) == 1 and isinstance(callee_body[0], ast.Return)   # expanded in place later
            if first is not None and not one_liner \
                    and self._callee(first)[0].split(".")[-1] in getattr(self, "fresh_helpers", ()) \
                    and all(_simple(a) for a in list(first.args) + [k.value for k in first.keywords]):
                self._if_counter = getattr(self, "_if_counter", 0) + 1
                name = f"{self._callee(first)[0].split('.')[-1].lstrip('_')}__value{self._if_counter}"
                assign = ast.copy_location(ast.Assign(targets=[ast.Name(id=name, ctx=ast.Store())], value=first), stmt)
                ast.fix_missing_locations(assign)
                expanded = self._stmt(assign, caller_names, level)
                if not (len(expanded) == 1 and expanded[0] is assign):
                    class _Swap(ast.NodeTransformer):
                        def visit_Call(self, node: ast.Call) -> ast.AST:  # noqa: N802
                            if node is first:
                                return ast.copy_location(ast.Name(id=name, ctx=ast.Load()), node)
                            return self.generic_visit(node)
                    stmt.test = _Swap().visit(stmt.test)
                    return expanded + self._stmt(stmt, caller_names, level)
        if isinstance(stmt, ast.Expr) and isinstance(stmt.value, ast.Call):
            call = stmt.value

            def sink(value, origin):  # type: ignore[no-redef]
                if value is None or _simple(value):
                    return []
                return [ast.copy_location(ast.Expr(value=value), origin)]
        elif isinstance(stmt, ast.Assign) and isinstance(stmt.value, ast.Call):
            call = stmt.value
            targets = stmt.targets

            def sink(value, origin):  # type: ignore[no-redef]
                new = ast.Assign(targets=clone(targets), value=value if value is not None else ast.Constant(value=None))
                ast.copy_location(new, origin)
                return [ast.fix_missing_locations(new)]
        elif isinstance(stmt, ast.AnnAssign) and isinstance(stmt.value, ast.Call) and isinstance(stmt.target, ast.Name):
            call = stmt.value
            target, annotation = stmt.target, stmt.annotation

            def sink(value, origin):  # type: ignore[no-redef]
                new = ast.AnnAssign(target=clone(target), annotation=clone(annotation),
                                    value=value if value is not None else ast.Constant(value=None), simple=1)
                ast.copy_location(new, origin)
                return [ast.fix_missing_locations(new)]
        elif isinstance(stmt, ast.Return) and isinstance(stmt.value, ast.Call):
            call = stmt.value

            def sink(value, origin):  # type: ignore[no-redef]
                new = ast.Return(value=value)
                return [ast.copy_location(new, origin)]
        if call is not None and sink is not None:
            expanded = self._expand(call, sink, caller_names, level)
            if expanded is not None:
                return expanded
            # `acc.append(_helper(...))`: the helper call is the only non-simple argument of a simple call, so
            # evaluating it first does not change the order of anything observable
            outer = call
            inner = [a for a in outer.args if isinstance(a, ast.Call) and self._callee(a) is not None]
            rest = [a for a in outer.args if a not in inner] + [k.value for k in outer.keywords]
            if len(inner) == 1 and all(_simple(a) for a in rest) and _simple(outer.func):
                position = outer.args.index(inner[0])
                outer_sink = sink

                def nested_sink(value, origin):
                    new_call = clone(outer)
                    new_call.args[position] = value if value is not None else ast.Constant(value=None)
                    return outer_sink(new_call, origin)
                expanded = self._expand(inner[0], nested_sink, caller_names, level)
                if expanded is not None:
                    return expanded
            # `_helper(...).method(simple args)`: the helper call is the receiver and is evaluated first anyway
            if isinstance(outer.func, ast.Attribute) and isinstance(outer.func.value, ast.Call) \
                    and self._callee(outer.func.value) is not None \
                    and all(_simple(a) for a in list(outer.args) + [k.value for k in outer.keywords]):
                receiver_sink = sink

                def method_sink(value, origin):
                    new_call = clone(outer)
                    new_call.func.value = value if value is not None else ast.Constant(value=None)
                    return receiver_sink(new_call, origin)
                expanded = self._expand(outer.func.value, method_sink, caller_names, level)
                if expanded is not None:
                    return expanded
        # recurse into compound statements
        for field in ("body", "orelse", "finalbody"):
            block = getattr(stmt, field, None)
            if isinstance(block, list) and block and isinstance(block[0], ast.stmt) \
                    and not isinstance(stmt, (ast.FunctionDef, ast.AsyncFunctionDef, ast.ClassDef)):
                setattr(stmt, field, self._block(block, caller_names, level))
        if isinstance(stmt, ast.Try):
            for handler in stmt.handlers:
                handler.body = self._block(handler.body, caller_names, level)
        return [stmt]

    def _block(self, stmts: List[ast.stmt], caller_names: Set[str], level: int) -> List[ast.stmt]:
        out: List[ast.stmt] = []
        for stmt in stmts:
            out += self._stmt(stmt, caller_names, level)
        return out


def inline_function(repo, rel: str, qual: str, func: ast.FunctionDef, depth: int = 2,
                    only: Optional[Set[str]] = None, fresh_nested: Optional[Set[str]] = None) -> Tuple[ast.FunctionDef, List[str]]:
    """ (copy of func with private helpers inlined, names of the helpers inlined); `fresh_nested` names nested functions
        of func that the reference tree did not have (extractions) and that are inlined even without `only` """
    inliner = Inliner(repo, rel, qual, depth, only)
    inliner.fresh_nested = set(fresh_nested or ())
    # helpers the reference tree did not have: only those are pulled out of `if` tests (the rules name the others)
    try:
        from .report import _reference_helpers
        known = set(_reference_helpers().get(rel, []))
    except Exception:  # pylint: disable=broad-except
        known = set()
    inliner.fresh_helpers = {q.split(".")[-1] for q, _ in repo.functions(rel)
                             if q.split(".")[-1].startswith("_") and not q.split(".")[-1].startswith("__") and q not in known} \
        | inliner.fresh_nested
    new = clone(func)
    names = _stored_names(new) | {n.id for n in ast.walk(new) if isinstance(n, ast.Name)}
    # nested function definitions keep their own bodies but are searched too (closures such as build_candidates)
    new.body = inliner._block(new.body, names, 1)
    for node in ast.walk(new):
        if isinstance(node, (ast.FunctionDef, ast.AsyncFunctionDef)) and node is not new:
            node.body = inliner._block(node.body, names | _stored_names(node), 1)
    # expression-level: a call of a one-statement helper (`return <expr>`) anywhere inside an expression is replaced by that
    # expression when every argument is simple or its parameter is used at most once (no duplicated evaluation)
    class Expand(ast.NodeTransformer):
        def visit_Call(self, node: ast.Call) -> ast.AST:  # noqa: N802
            self.generic_visit(node)
            found = inliner._callee(node)  # pylint: disable=protected-access
            if found is None:
                return node
            qual_name, target, drop_first = found
            if qual_name == qual or (only is not None and qual_name.split(".")[-1] not in only):
                return node
            body = [st for st in target.body
                    if not (isinstance(st, ast.Expr) and isinstance(st.value, ast.Constant) and isinstance(st.value.value, str))]
            if len(body) != 1 or not isinstance(body[0], ast.Return) or body[0].value is None or target.decorator_list and any(
                    not (isinstance(d, ast.Name) and d.id in ("staticmethod", "classmethod")) for d in target.decorator_list):
                return node
            args = target.args
            if args.vararg or args.kwarg or args.posonlyargs or any(isinstance(a, ast.Starred) for a in node.args) \
                    or any(k.arg is None for k in node.keywords):
                return node
            params = [a.arg for a in args.args]
            subst: Dict[str, ast.AST] = {}
            if drop_first:
                if not params:
                    return node
                subst[params[0]] = node.func.value  # type: ignore[attr-defined]
                params = params[1:]
            if len(node.args) > len(params):
                return node
            binding = dict(zip(params, node.args))
            for kw in node.keywords:
                if kw.arg not in params or kw.arg in binding:
                    return node
                binding[kw.arg] = kw.value
            defaults = dict(zip(params[len(params) - len(args.defaults):], args.defaults))
            for name in params:
                if name not in binding:
                    if name not in defaults:
                        return node
                    binding[name] = defaults[name]
            expr = body[0].value
            for name, value in binding.items():
                uses = sum(1 for n in ast.walk(expr) if isinstance(n, ast.Name) and n.id == name)
                if not _simple(value) and uses > 1:
                    return node
            subst.update(binding)
            inliner.inlined.append(qual_name)
            return _Rename({}, subst).visit(clone(expr))
    new = Expand().visit(new)
    if inliner.inlined:
        from .desugar import desugar_function
        desugar_function(new)
    ast.fix_missing_locations(new)
    link_parents(new, getattr(func, "_parent", None))
    return new, inliner.inlined
