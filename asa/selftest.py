""" Checker self-validation (thorough tier).

    Every variant is a small textual edit of repository sources applied to an
    in-memory overlay (nothing is written to /repo; patches from
    /verif/seeded are applied to temporary copies of the touched files only).
    A *broken* variant must make the property's check report a violation of the
    named rule; a *neutral* variant (behaviour preserving) must leave it clean.
    A mismatch means the checker is wrong: the run ends with ANALYSIS-ERROR /
    exit 2 - it is never reported as a violation of /repo.
"""

from __future__ import annotations

import importlib
import json
import os
import shutil
import subprocess
import sys
import tempfile
import time
from concurrent.futures import ProcessPoolExecutor
from typing import Dict, List, Optional, Tuple

from . import report
from .index import AnalysisError, Repo

VERIF = os.path.dirname(os.path.dirname(os.path.abspath(__file__)))

RP = "antismash/common/hmm_rule_parser/rule_parser.py"
CP = "antismash/common/hmm_rule_parser/cluster_prediction.py"
LOC = "antismash/common/secmet/locations.py"
REC = "antismash/common/secmet/record.py"
FORM = "antismash/common/secmet/features/candidate_cluster/formation.py"
HELP = "antismash/common/secmet/features/region/helpers.py"
REF = "antismash/common/hmmscan_refinement.py"
HMMER = "antismash/common/hmmer.py"
MI = "antismash/detection/nrps_pks_domains/module_identification.py"
ORF = "antismash/common/all_orfs.py"
RPROC = "antismash/common/record_processing.py"
BASE = "antismash/common/subprocessing/base.py"
COLL = "antismash/common/secmet/features/cdscollection.py"
AP = "antismash/outputs/html/area_packing.py"
SER = "antismash/common/serialiser.py"
MAIN = "antismash/main.py"
TTA = "antismash/modules/tta/tta.py"
HD = "antismash/detection/hmm_detection/__init__.py"
PROTO = "antismash/common/secmet/features/protocluster.py"
PREP = "antismash/common/secmet/features/prepeptide.py"

B, N, U = "broken", "neutral", "broken-undecided"

# (property, kind, name, file, old, new, rule expected to fire for broken variants)
VARIANTS: List[Tuple[str, str, str, str, str, str, str]] = [
    # ---- C01
    ("C01", B, "in_range <=", RP, "return distance < self.cutoff", "return distance <= self.cutoff", "R01.1"),
    ("C01", N, "in_range flipped", RP, "return distance < self.cutoff", "return self.cutoff > distance", ""),
    ("C01", N, "in_range negated form", RP, "return distance < self.cutoff", "return not distance >= self.cutoff", ""),
    ("C01", B, "negation dropped", RP, "return ConditionMet(not self.negated, hits, other_cds_hits)",
     "return ConditionMet(True, hits, other_cds_hits)", "R01.2"),
    ("C01", B, "neighbour hits become reasons", RP, "return ConditionMet(not self.negated, hits, other_cds_hits)",
     "return ConditionMet(not self.negated, hits.union(*other_cds_hits.values()), other_cds_hits)", "R01.3"),
    ("C01", B, "cds() not local", RP, "results = results or super().are_subconditions_satisfied(details.just_cds(cds), local_only=True).met",
     "results = results or super().are_subconditions_satisfied(details.just_cds(cds), local_only=local_only).met", "R01.4"),
    ("C01", B, "minimum threshold >", RP, "        if hit_count >= self.count:\n            return ConditionMet(not self.negated, hits, other_cds_hits)",
     "        if hit_count > self.count:\n            return ConditionMet(not self.negated, hits, other_cds_hits)", "R01.6"),
    ("C01", B, "anchoring without reasons", CP, "if matching.met and matching.matches:", "if matching.met:", "R01.7"),
    ("C01", N, "and-fold with &=", RP, "met = met and result.met", "met &= result.met", ""),
    # ---- C02
    ("C02", B, "cds allowed inside cds", RP, "conditions = self._parse_conditions(allow_cds=False, is_group=True)",
     "conditions = self._parse_conditions(allow_cds=True, is_group=True)", "R02.1"),
    ("C02", B, "negation not passed", RP, "return CDSCondition(negated, self._parse_cds())", "return CDSCondition(False, self._parse_cds())", "R02.1"),
    ("C02", B, "neighbourhood scaled by cutoff multiplier", RP, "rule.neighbourhood = int(rule.neighbourhood * multipliers.neighbourhood)",
     "rule.neighbourhood = int(rule.neighbourhood * multipliers.cutoff)", "R02.3"),
    ("C02", B, "duplicate rule check removed", RP, "            if rule.name in self.rules_by_name:\n                raise ValueError(f\"Multiple rules specified for the same rule name: {rule.name}\")\n",
     "", "R02.4"),
    ("C02", B, "keyword mapped twice", RP, "\"SUPERIORS\": TokenTypes.SUPERIORS", "\"SUPERIORS\": TokenTypes.RELATED", "R02.2"),
    ("C02", B, "superiors not closed", RP, "return sorted(set(superiors).union(transitive_superiors))", "return sorted(set(superiors))", "R02.5"),
    ("C02", N, "kilobase as 1000 *", RP, "cutoff = self._consume_int() * 1000  # convert from kilobases", "cutoff = 1000 * self._consume_int()", ""),
    # ---- C03 / C07
    ("C03", B, "wrap merge <=", CP, "if record.get_distance_between_features(first, last) < cutoff:",
     "if record.get_distance_between_features(first, last) <= cutoff:", "R03.2"),
    ("C03", N, "wrap merge flipped", CP, "if record.get_distance_between_features(first, last) < cutoff:",
     "if cutoff > record.get_distance_between_features(first, last):", ""),
    ("C03", B, "neighbourhood used for chaining", CP, "dummy = Feature(_extend_area_location(previous.location, cutoff, record), \"temp\")",
     "dummy = Feature(_extend_area_location(previous.location, rule.neighbourhood, record), \"temp\")", "R03.2"),
    ("C03", B, "cutoff/neighbourhood swapped at constructor", CP,
     "                                         tool=\"rule-based-clusters\", cutoff=cutoff,\n                                         neighbourhood_range=rule.neighbourhood, product=cluster_type,",
     "                                         tool=\"rule-based-clusters\", cutoff=rule.neighbourhood,\n                                         neighbourhood_range=cutoff, product=cluster_type,", "R03.3"),
    ("C03", B, "F1 reintroduced", CP, "nearby_features, nearby_results, circular_origin = info_by_range[rule.cutoff]",
     "nearby_features, nearby_results, _ = info_by_range[rule.cutoff]", "R03.1"),
    ("C03", B, "cache hoisted out of the gene loop", CP,
     "    for cds_name in cds_with_hits:\n        feature = record.get_cds_by_name(cds_name)\n        rule_texts = []\n        info_by_range: Dict[int, Tuple[Dict[str, CDSFeature], Dict[str, List[HSP]], int]] = {}\n",
     "    info_by_range: Dict[int, Tuple[Dict[str, CDSFeature], Dict[str, List[HSP]], int]] = {}\n    for cds_name in cds_with_hits:\n        feature = record.get_cds_by_name(cds_name)\n        rule_texts = []\n", "R03.1"),
    ("C03", N, "rename loop local", CP, "matching = rule.detect(cds_name, nearby_features, nearby_results, circular_origin=circular_origin)\n            if matching.met and matching.matches:\n                cds_domains_by_cluster_type[cds_name][rule.name].update(matching.matches)",
     "verdict = rule.detect(cds_name, nearby_features, nearby_results, circular_origin=circular_origin)\n            matching = verdict\n            if matching.met and matching.matches:\n                cds_domains_by_cluster_type[cds_name][rule.name].update(matching.matches)", ""),
    ("C07", B, "F1 reintroduced", CP, "nearby_features, nearby_results, circular_origin = info_by_range[rule.cutoff]",
     "nearby_features, nearby_results, _ = info_by_range[rule.cutoff]", "R07.1"),
    ("C07", B, "store under wrong rule key", CP, "cluster_type_hits[rule.name].add(cds_name)", "cluster_type_hits[rule.category].add(cds_name)", "R07.2"),
    ("C07", B, "rules sorted in get_ruleset", HD, "ruleset = ruleset.copy_with_replacements(rules=list(rules), multipliers=multipliers)",
     "ruleset = ruleset.copy_with_replacements(rules=sorted(rules, key=lambda r: r.name), multipliers=multipliers)", "R07.4"),
    ("C07", N, "comment only", CP, "    # gather up protoclusters of the same type, as pairs of cluster and core location + cutoff",
     "    # gather protoclusters by product", ""),
    # ---- C04
    ("C04", B, "overlap off by one", LOC, "    return (first.start in second or first.end - 1 in second\n            or second.start in first or second.end - 1 in first)",
     "    return (first.start in second or first.end in second\n            or second.start in first or second.end in first)", "R04.1"),
    ("C04", N, "overlap as max<min", LOC, "    return (first.start in second or first.end - 1 in second\n            or second.start in first or second.end - 1 in first)",
     "    return max(first.start, second.start) < min(first.end, second.end)", ""),
    ("C04", B, "contains any/any", LOC, "return all(location_contains_other(outer, part) for part in inner.parts)",
     "return any(location_contains_other(outer, part) for part in inner.parts)", "R04.2"),
    ("C04", B, "F4 reintroduced", LOC, "end = (part.end - 1 + wrap_point) % wrap_point + 1", "end = (part.end + wrap_point) % wrap_point", "R04.3"),
    ("C04", B, "shift end only", LOC, "            start = part.start + offset\n            end = part.end + offset\n            assert start < end",
     "            start = part.start\n            end = part.end + offset\n            assert start < end", "R04.4"),
    ("C04", B, "distance before overlap test", LOC, "    if locations_overlap(first, second):\n        return 0\n    offset = 0", "    offset = 0", "R04.5"),
    # ---- C05
    ("C05", B, "F2 reintroduced", FORM, "existing.get((int(cluster.start), int(cluster.end)))", "existing.get((cluster.location.start, cluster.location.end))", "R05.1"),
    ("C05", B, "interleaved by full extent", FORM, "            if locations_overlap(candidate.core_location, cluster.core_location):\n                groups.append(set(candidate.protoclusters + (cluster,)))\n                found.add(cluster)",
     "            if locations_overlap(candidate.location, cluster.location):\n                groups.append(set(candidate.protoclusters + (cluster,)))\n                found.add(cluster)", "R05.2"),
    ("C05", N, "key without int()", FORM, "existing.get((int(cluster.start), int(cluster.end)))", "existing.get((cluster.start, cluster.end))", ""),
    # ---- C06
    ("C06", B, "subregion parent not reset", REC, "            for subregion in region.subregions:\n                subregion.parent = None\n", "", "R06.1"),
    ("C06", B, "renumber from 0", REC, "            self._subregion_numbering[self._subregions[i]] = i + 1  # 1-indexed", "            self._subregion_numbering[self._subregions[i]] = i", "R06.2"),
    ("C06", B, "region inserted before overlap scan", REC, "        index = 0\n        for i, existing_region in enumerate(self._regions):  # TODO: fix performance",
     "        index = 0\n        region.parent_record = self\n        for i, existing_region in enumerate(self._regions):  # TODO: fix performance", "R06.3"),
    ("C06", N, "split test via locations_overlap", REC, "            if not area.overlaps_with(location):", "            if not locations_overlap(area.location, location):", ""),
    # ---- C08
    ("C08", B, "subregions not linked", REC, "            self._candidate_clusters,\n            self._subregions\n        ]", "            self._candidate_clusters,\n        ]", "R08.1"),
    ("C08", B, "core not required for defining gene", PROTO, "        if not cds.is_contained_by(self.core_location):\n            return\n", "", "R08.2"),
    ("C08", N, "loop variable renamed", REC, "            for collection in collections:\n                if cds.is_contained_by(collection):\n                    collection.add_cds(cds)",
     "            for area in collections:\n                if cds.is_contained_by(area):\n                    area.add_cds(cds)", ""),
    # ---- C09
    ("C09", B, "reverse strand not mirrored", LOC, "        dna_start = location.start + len(location) - end * 3\n        dna_end = location.start + len(location) - start * 3",
     "        dna_start = location.start + len(location) - start * 3\n        dna_end = location.start + len(location) - end * 3", "R09.1"),
    ("C09", N, "3 * start", LOC, "        dna_start = location.start + start * 3\n        dna_end = location.start + end * 3",
     "        dna_start = 3 * start + location.start\n        dna_end = 3 * end + location.start", ""),
    ("C09", B, "translation sliced with other range", HMMER, "\"translation\": feature.translation[hsp.query_start:hsp.query_end],",
     "\"translation\": feature.translation[hsp.hit_start:hsp.hit_end],", "R09.3"),
    # ---- C10
    ("C10", B, "qualifier no longer written", "antismash/common/secmet/features/candidate_cluster/structures.py",
     "        qualifiers[\"kind\"] = [str(self.kind)]\n", "", "R10.1"),
    ("C10", B, "modules dropped from output", REC, "            self._modules,\n            self._subregions,", "            self._subregions,", "R10.2"),
    ("C10", B, "regions before candidates on reload", REC, "for kind in [CandidateCluster, Region, Module]:", "for kind in [Region, CandidateCluster, Module]:", "R10.3"),
    ("C10", B, "feature key renamed on write only", SER, "    return {\"location\": str(feature.location),\n            \"type\": feature.type,",
     "    return {\"loc\": str(feature.location),\n            \"type\": feature.type,", "R10.4"),
    # ---- C11
    ("C11", B, "json key renamed on write only", CP, "\"tool\": self.tool,\n            \"cds_by_protocluster\": cds_results_json,", "\"tool_name\": self.tool,\n            \"cds_by_protocluster\": cds_results_json,", "R11.1"),
    ("C11", B, "schema guard removed", CP, "        if RuleDetectionResults.schema_version != json.get(\"schema_version\", 1):\n            return None\n", "", "R11.2"),
    ("C11", B, "multiplier mismatch ignored", HD, "            raise RuntimeError(\"Protocluster cutoff multiplier changed, previous results are incompatible\")",
     "            pass", "R11.3"),
    # ---- C12
    ("C12", B, "F3 reintroduced (dead branch)", "antismash/common/secmet/features/abstract.py", "    FEATURE_TYPE = \"region\"  # shared with the concrete implementation\n", "", "R12.1"),
    ("C12", B, "restore loop removed", HELP, "    for feature in record.features:\n        feature.location = original_locations[id(feature)]\n", "    pass\n", "R12.2"),
    ("C12", B, "renumber by wrong family", HELP, "new = str(int(feature.qualifiers[\"subregion_number\"][0]) - first_subregion + 1)",
     "new = str(int(feature.qualifiers[\"subregion_number\"][0]) - first_cluster + 1)", "R12.3"),
    # ---- C13
    ("C13", B, "overlap test uses >=", REF, "return other.query_end > self.query_start and self.query_end > other.query_start",
     "return other.query_end >= self.query_start and self.query_end >= other.query_start", "R13.2"),
    ("C13", B, "F8 reintroduced", REF, "        end = max(self.query_end, other.query_end)", "        end = other.query_end if self.query_start < other.query_start else self.query_end", "R13.2"),
    ("C13", B, "replacement on >=", REF, "            if result.bitscore > previous.bitscore:", "            if result.bitscore >= previous.bitscore:", "R13.2"),
    ("C13", N, "overlap flipped operands", REF, "return other.query_end > self.query_start and self.query_end > other.query_start",
     "return self.query_start < other.query_end and other.query_start < self.query_end", ""),
    # ---- C14
    ("C14", B, "slot overwritten", MI, "            if not self._carrier_protein:\n                self._carrier_protein = component\n            else:",
     "            if True:\n                self._carrier_protein = component\n            else:", "R14.1"),
    ("C14", B, "mutate before validate", MI, "        if component.is_ignored():\n            return\n        if self._unambiguous_accept > 0:",
     "        if component.is_ignored():\n            return\n        self._others.append(component)\n        if self._unambiguous_accept > 0:", "R14.2"),
    ("C14", B, "classification overlap", MI, "KETOSYNTHASES = {\n    \"PKS_KS\",\n}", "KETOSYNTHASES = {\n    \"PKS_KS\",\n    \"PKS_AT\",\n}", "R14.4"),
    ("C14", B, "list mutated before completeness test", MI, "    # if it's still incomplete after the merge, discard it\n    if not module.is_complete():\n        return None\n",
     "    current.modules.pop(0)\n    if not module.is_complete():\n        return None\n", "R14.5"),
    # ---- C15
    ("C15", B, "stop codon not included", ORF, "                    loc_end = end + offset + 1", "                    loc_end = end + offset", "R15.1"),
    ("C15", B, "reverse mirror off by one", ORF, "                    loc_start = seq_len + offset - end - 1", "                    loc_start = seq_len + offset - end", "R15.1"),
    ("C15", B, "wrapped end without idiom", ORF, "loc_end = ((loc_end - 1 + record_length) % record_length) + 1", "loc_end = (loc_end + record_length) % record_length", "R15.2"),
    ("C15", B, "stop does not clear start", ORF, "                    matches.append(FeatureLocation(loc_start, loc_end, direction))\n                start = None",
     "                    matches.append(FeatureLocation(loc_start, loc_end, direction))", "R15.3"),
    ("C15", N, "forward arm reordered", ORF, "                    loc_start = start + offset\n                    loc_end = end + offset + 1",
     "                    loc_end = 1 + offset + end\n                    loc_start = offset + start", ""),
    # ---- C16
    ("C16", B, "F6 reintroduced", RPROC, "        if cleaned_id in all_record_ids:\n            cleaned_id, _ = generate_unique_id(cleaned_id[:12], all_record_ids,\n                                               max_length=-1 if allow_long_names else 16)\n", "", "R16.1"),
    ("C16", B, "registry add dropped", RPROC, "            record.id = name\n            all_record_ids.add(name)", "            record.id = name", "R16.1"),
    ("C16", B, "F9 reintroduced", RPROC, "if _shorten_ids(old_id) not in all_record_ids and len(_shorten_ids(old_id)) <= 16:", "if _shorten_ids(old_id) not in all_record_ids:", "R16.3"),
    ("C16", B, "original id lost", RPROC, "                    record.original_id = record.id\n                    record.id = generate_unique_id(record.id, all_record_ids)[0]",
     "                    record.id = generate_unique_id(record.id, all_record_ids)[0]", "R16.4"),
    # ---- C18
    ("C18", B, "imap_unordered", BASE, "jobs = pool.starmap_async(function, args)", "jobs = pool.imap_unordered(function, args)", "R18.1"),
    ("C18", B, "timeout swallowed", BASE, "    if timeouts:\n        raise RuntimeError(\"Timeout in parallel function:\", function)\n", "", "R18.2"),
    ("C18", B, "reduce drops an argument", COLL, "return (_SectionedCDSTuple, (self._lookup, self.pre_origin, self.cross_origin, self.post_origin))",
     "return (_SectionedCDSTuple, (self._lookup, self.pre_origin, self.post_origin))", "R18.4"),
    # ---- C19
    ("C19", B, "break removed in pack", AP, "            if row.can_fit(area):\n                row.add(area)\n                break", "            if row.can_fit(area):\n                row.add(area)", "R19.1"),
    ("C19", B, "offset misses a field", AP, "        self.neighbouring_start += distance\n", "", "R19.2"),
    ("C19", N, "offset statements reordered", AP, "        self.start += distance\n        self.end += distance\n", "        self.end += distance\n        self.start += distance\n", ""),
    # ---- C20
    ("C20", B, "open before encode", SER, "        try:\n            converted = json.dumps(self.to_json())\n        except TypeError as error:\n            message = f\"Failed to convert JSON results: {error}\"\n            logging.error(message)\n            raise TypeError(message) from error\n        if isinstance(handle, str):\n            handle = open(handle, \"w\", encoding=\"utf-8\")  # pylint: disable=consider-using-with\n",
     "        if isinstance(handle, str):\n            handle = open(handle, \"w\", encoding=\"utf-8\")  # pylint: disable=consider-using-with\n        try:\n            converted = json.dumps(self.to_json())\n        except TypeError as error:\n            message = f\"Failed to convert JSON results: {error}\"\n            logging.error(message)\n            raise TypeError(message) from error\n", "R20.1"),
    ("C20", B, "refusal removed", MAIN, "            raise AntismashInputError(\"Output directory contains other files, aborting for safety\")", "            logging.warning(\"Output directory contains other files\")", "R20.2"),
    ("C20", B, "annotate before json", MAIN, "    results.write_to_file(json_filename)\n\n    # now that the json is out of the way, annotate the record\n    # otherwise we could double annotate some areas\n    annotate_records(results)",
     "    annotate_records(results)\n    results.write_to_file(json_filename)", "R20.3"),
    ("C20", N, "with-open form", SER, "        if isinstance(handle, str):\n            handle = open(handle, \"w\", encoding=\"utf-8\")  # pylint: disable=consider-using-with\n        handle.write(converted)\n\n\ndef dump_records",
     "        if isinstance(handle, str):\n            with open(handle, \"w\", encoding=\"utf-8\") as opened:\n                opened.write(converted)\n            return\n        handle.write(converted)\n\n\ndef dump_records", ""),
]

TYPED_VARIANTS: List[Tuple[str, str, str, str, str, str, str]] = [
    # these need a mypy run per variant (about 30 s each)
    ("C10", B, "score written by truthiness", "antismash/common/secmet/features/antismash_feature.py",
     "        if self.score is not None:", "        if self.score:", "R10.8"),
    ("C10", N, "optional string written by truthiness stays fine", "antismash/common/secmet/features/antismash_feature.py",
     "        if self.score is not None:", "        if not self.score is None:", ""),
    ("C17", B, "F5 reintroduced", REF, "        refined = sorted(results, key=lambda result: (result.query_start, -result.bitscore, result.query_end,\n                                                      result.hit_id, result.evalue))",
     "        refined = sorted(list(results), key=lambda result: result.query_start)", "R17.1"),
    ("C05", B, "F10 loop over set reintroduced", FORM, "    for cluster in sorted(set(unassigned)):", "    for cluster in set(unassigned):", "R05.3"),
    ("C13", B, "set order in refinement", REF, "        refined = sorted(results, key=lambda result: (result.query_start, -result.bitscore, result.query_end,\n                                                      result.hit_id, result.evalue))",
     "        refined = sorted(results, key=lambda result: result.query_start)", "R13.1"),
]


def _overlay_from_patch(repo_root: str, patch_path: str) -> Optional[Dict[str, str]]:
    """ apply a unified diff to temporary copies of the files it touches """
    with open(patch_path, encoding="utf-8") as handle:
        text = handle.read()
    files = [line[6:].strip() for line in text.splitlines() if line.startswith("+++ b/")]
    tmp = tempfile.mkdtemp(prefix="asa-selftest-")
    try:
        for rel in files:
            src = os.path.join(repo_root, rel)
            if not os.path.exists(src):
                return None
            os.makedirs(os.path.dirname(os.path.join(tmp, rel)), exist_ok=True)
            shutil.copy(src, os.path.join(tmp, rel))
        proc = subprocess.run(["patch", "-p1", "--no-backup-if-mismatch", "-s", "-f", "-i", patch_path], cwd=tmp,
                              capture_output=True, text=True)
        if proc.returncode != 0:
            return None
        overlay = {}
        for rel in files:
            with open(os.path.join(tmp, rel), encoding="utf-8") as handle:
                overlay[rel] = handle.read()
        return overlay
    finally:
        shutil.rmtree(tmp, ignore_errors=True)


def _run_variant(args) -> Tuple[str, str, str, str]:
    """ returns (label, expectation, outcome, detail); outcome in ok | mismatch | stale """
    prop, kind, name, overlay, rule, repo_root = args
    label = f"{prop} {kind}: {name}"
    if overlay is None:
        return label, kind, "stale", "edit does not apply to the current tree"
    try:
        module = importlib.import_module(f"asa.rules.{prop.lower()}")
        repo = Repo(repo_root, overlay=overlay)
        ctx = report.Ctx(prop, repo, "quick")
        module.run(ctx)
        ctx.finish()
        new, _ = report.verdict(ctx, report.load_known())
    except AnalysisError as err:
        if kind in (B, U):
            # a broken variant that leaves the recognised idioms is "cannot analyse", which is also not a pass
            return label, kind, "ok", f"analysis error (not a pass): {str(err)[:100]}"
        return label, kind, "mismatch", f"neutral variant made the analysis fail: {str(err)[:160]}"
    except Exception as err:  # pylint: disable=broad-except
        return label, kind, "mismatch", f"internal error {type(err).__name__}: {str(err)[:160]}"
    if kind == U:
        rules = sorted({ob.rule for ob in new})
        return label, kind, "ok", (f"now reported by {rules}: update its meta.json" if new else
                                   "not reported, as recorded (the clause it breaks is listed as undecided)")
    if kind == B:
        rules = sorted({ob.rule for ob in new})
        if not new:
            return label, kind, "mismatch", "broken variant not reported"
        if rule and rule not in rules:
            return label, kind, "mismatch", f"reported by {rules} but not by {rule}"
        return label, kind, "ok", f"reported by {rules}"
    if new:
        ob = new[0]
        return label, kind, "mismatch", f"neutral variant reported: {ob.rule} {ob.construct} {ob.what[:80]}"
    return label, kind, "ok", "clean"


def jobs_for(prop: str, repo_root: str, typed: bool) -> List[tuple]:
    jobs = []
    base: Dict[str, str] = {}
    table = VARIANTS + (TYPED_VARIANTS if typed else [])
    for vprop, kind, name, rel, old, new, rule in table:
        if vprop != prop:
            continue
        if rel not in base:
            path = os.path.join(repo_root, rel)
            base[rel] = open(path, encoding="utf-8").read() if os.path.exists(path) else ""
        source = base[rel]
        overlay = {rel: source.replace(old, new, 1)} if source.count(old) == 1 else None
        jobs.append((prop, kind, name, overlay, rule, repo_root))
    # generic neutral variant: every module re-emitted by ast.unparse (comments dropped, layout and quoting normalised)
    if prop not in ("C05", "C13", "C17") or typed:
        try:
            import ast as _ast
            reformatted = {}
            base_repo = Repo(repo_root)
            for rel, module in base_repo.modules.items():
                reformatted[rel] = _ast.unparse(_ast.parse(module.source)) + "\n"
            jobs.append((prop, N, "whole package re-emitted by ast.unparse (formatting-only change)", reformatted, "", repo_root))
        except (SyntaxError, AnalysisError):
            pass
    # behaviour-preserving refactorings written by sub-agents (suite and demos unchanged): no check may alarm on them
    neutral = os.path.join(VERIF, "neutral")
    if os.path.isdir(neutral):
        for entry in sorted(os.listdir(neutral)):
            if entry.endswith(".diff"):
                jobs.append((prop, N, f"refactoring {entry}", _overlay_from_patch(repo_root, os.path.join(neutral, entry)),
                             "", repo_root))
    seeds = os.path.join(VERIF, "seeded")
    if os.path.isdir(seeds):
        for entry in sorted(os.listdir(seeds)):
            if not entry.startswith(prop + "-"):
                continue
            patch = os.path.join(seeds, entry, "patch.diff")
            if os.path.exists(patch):
                kind = B
                meta = os.path.join(seeds, entry, "meta.json")
                try:
                    with open(meta, encoding="utf-8") as handle:
                        if json.load(handle).get("detected_by", "") is None:
                            kind = U  # recorded in its meta.json and in DESIGN.md as a change no rule decides
                except (OSError, ValueError):
                    pass
                jobs.append((prop, kind, f"seeded change {entry}", _overlay_from_patch(repo_root, patch), "", repo_root))
    return jobs


def run(prop: str, repo_root: str) -> int:
    start = time.time()
    typed = prop in ("C05", "C10", "C13", "C17")
    jobs = jobs_for(prop, repo_root, typed)
    if not jobs:
        print(f"selftest property={prop}: no variants registered")
        return 0
    workers = min(16, len(jobs))
    with ProcessPoolExecutor(max_workers=workers) as pool:
        results = list(pool.map(_run_variant, jobs))
    bad = [r for r in results if r[2] == "mismatch"]
    stale = [r for r in results if r[2] == "stale"]
    for label, kind, outcome, detail in results:
        print(f"  selftest {outcome:8s} {label}: {detail}")
    print(f"selftest property={prop} variants={len(results)} ok={len(results) - len(bad) - len(stale)} "
          f"mismatch={len(bad)} stale={len(stale)} wall={time.time() - start:.1f}s")
    summary = {"variants": len(results), "broken_detected": sum(1 for r in results if r[1] == B and r[2] == "ok"),
               "neutral_clean": sum(1 for r in results if r[1] == N and r[2] == "ok"),
               "broken_recorded_undecided": sum(1 for r in results if r[1] == U),
               "mismatch": len(bad), "stale": len(stale), "results": [list(r) for r in results]}
    _merge_into_evidence(prop, summary)
    if bad:
        print(f"ANALYSIS-ERROR property={prop} self-validation failed: {bad[0][0]}: {bad[0][3]}")
        return 2
    if len(stale) * 2 > len(results):
        print(f"ANALYSIS-ERROR property={prop} self-validation: {len(stale)} of {len(results)} variants no longer apply to this tree")
        return 2
    return 0


def _merge_into_evidence(prop: str, summary: dict) -> None:
    path = os.path.join(VERIF, "evidence", f"{prop}.json")
    if not os.path.exists(path):
        return
    try:
        with open(path, encoding="utf-8") as handle:
            evidence = json.load(handle)
        evidence["coverage"]["selftest"] = summary
        with open(path, "w", encoding="utf-8") as handle:
            json.dump(evidence, handle, indent=1)
            handle.write("\n")
    except (OSError, ValueError, KeyError):
        pass


if __name__ == "__main__":
    sys.exit(run(sys.argv[1], sys.argv[2] if len(sys.argv) > 2 else "/repo"))
