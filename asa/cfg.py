""" Statement-level control-flow graph for one function, with dominators,
    post-dominators, path queries and reaching definitions.

    Nodes are simple statements, the tests of if/while, loop headers of `for`,
    `with` headers and `except` handler entries.  Edges carry a label:
    None (fall through), 'T'/'F' (branch taken / not taken, loop continues /
    loop exhausted), 'exc' (an exception raised somewhere in a `try` body
    reaching a handler) and 'back' is not separate: back edges are ordinary
    edges into the loop header.  `finally` bodies are duplicated per way of
    leaving the `try` (normal, exception, return, break, continue) so that
    paths stay precise.  Implicit exceptions outside `try` blocks are not
    edges; explicit `raise` statements go to the enclosing handlers or to the
    function's exceptional exit.
"""

from __future__ import annotations

import ast
from typing import Dict, Iterable, List, Optional, Set, Tuple

from .astutil import stmt_defs, walk_local

Edge = Tuple[int, Optional[str]]


def free_loads(expr: ast.AST, bound: Optional[Set[str]] = None) -> Set[str]:
    """ names loaded by an expression, excluding comprehension / lambda variables bound inside it """
    bound = set(bound or ())
    result: Set[str] = set()
    if isinstance(expr, ast.Name):
        if isinstance(expr.ctx, ast.Load) and expr.id not in bound:
            result.add(expr.id)
        return result
    if isinstance(expr, (ast.ListComp, ast.SetComp, ast.GeneratorExp, ast.DictComp)):
        inner = set(bound)
        for gen in expr.generators:
            result |= free_loads(gen.iter, inner)
            inner |= {n.id for n in ast.walk(gen.target) if isinstance(n, ast.Name)}
            for cond in gen.ifs:
                result |= free_loads(cond, inner)
        if isinstance(expr, ast.DictComp):
            result |= free_loads(expr.key, inner) | free_loads(expr.value, inner)
        else:
            result |= free_loads(expr.elt, inner)
        return result
    if isinstance(expr, ast.Lambda):
        inner = set(bound) | {a.arg for a in expr.args.args + expr.args.kwonlyargs + expr.args.posonlyargs}
        return free_loads(expr.body, inner)
    if isinstance(expr, (ast.FunctionDef, ast.AsyncFunctionDef, ast.ClassDef)):
        return result
    for child in ast.iter_child_nodes(expr):
        result |= free_loads(child, bound)
    return result


class Node:
    __slots__ = ("id", "kind", "ast", "copy")

    def __init__(self, nid: int, kind: str, node: Optional[ast.AST], copy: bool = False) -> None:
        self.id = nid
        self.kind = kind
        self.ast = node
        self.copy = copy

    def __repr__(self) -> str:
        line = getattr(self.ast, "lineno", "-")
        return f"<{self.id}:{self.kind}@{line}>"


class _Ctx:
    """ one enclosing try / loop level during construction """
    def __init__(self, kind: str) -> None:
        self.kind = kind  # 'try' | 'finally' | 'loop'
        self.handlers: List[int] = []
        self.catches_all = False
        self.finalbody: List[ast.stmt] = []
        self.loop_head: int = -1
        self.breaks: List[Edge] = []


class CFG:
    def __init__(self, func: ast.AST) -> None:
        self.func = func
        self.nodes: List[Node] = []
        self.succ: Dict[int, List[Edge]] = {}
        self.pred: Dict[int, List[Edge]] = {}
        self.node_of: Dict[int, int] = {}     # id(ast stmt) -> primary node id
        self.copies: Dict[int, List[int]] = {}  # id(ast stmt) -> all node ids (finally copies)
        self.entry = self._new("entry", None)
        self.exit = self._new("exit", None)
        self.raise_exit = self._new("raise", None)
        self._stack: List[_Ctx] = []
        frontier = self._block(getattr(func, "body", []), [(self.entry, None)])
        self._connect(frontier, self.exit)
        self._dom: Optional[Dict[int, Set[int]]] = None
        self._pdom: Optional[Dict[int, Set[int]]] = None

    # ------------------------------------------------------------- building
    def _new(self, kind: str, node: Optional[ast.AST], copy: bool = False) -> int:
        nid = len(self.nodes)
        self.nodes.append(Node(nid, kind, node, copy))
        self.succ[nid] = []
        self.pred[nid] = []
        if node is not None:
            self.copies.setdefault(id(node), []).append(nid)
            if not copy or id(node) not in self.node_of:
                self.node_of.setdefault(id(node), nid)
        return nid

    def _edge(self, src: int, dst: int, label: Optional[str]) -> None:
        if (dst, label) not in self.succ[src]:
            self.succ[src].append((dst, label))
            self.pred[dst].append((src, label))

    def _connect(self, frontier: Iterable[Edge], dst: int) -> None:
        for src, label in frontier:
            self._edge(src, dst, label)

    def _exc_targets(self, node: int, label: str = "exc") -> None:
        """ edges for an exception raised at `node` given the context stack """
        frontier: List[Edge] = [(node, label)]
        for ctx in reversed(self._stack):
            if ctx.kind == "try":
                for handler in ctx.handlers:
                    self._connect(frontier, handler)
                if ctx.catches_all:
                    return
            elif ctx.kind == "finally":
                frontier = self._inline_finally(ctx, frontier)
        self._connect(frontier, self.raise_exit)

    def _inline_finally(self, ctx: _Ctx, frontier: List[Edge]) -> List[Edge]:
        saved = self._stack
        self._stack = saved[:saved.index(ctx)]
        self._copy_mode = getattr(self, "_copy_mode", 0) + 1
        try:
            result = self._block(ctx.finalbody, frontier)
        finally:
            self._copy_mode -= 1
            self._stack = saved
        return result

    def _leave(self, frontier: List[Edge], upto: Optional[_Ctx]) -> List[Edge]:
        """ run the finally bodies between here and `upto` (exclusive) """
        for ctx in reversed(self._stack):
            if ctx is upto:
                break
            if ctx.kind == "finally":
                frontier = self._inline_finally(ctx, frontier)
        return frontier

    def _simple(self, kind: str, node: ast.AST, frontier: List[Edge]) -> int:
        nid = self._new(kind, node, copy=getattr(self, "_copy_mode", 0) > 0)
        self._connect(frontier, nid)
        if any(ctx.kind in ("try", "finally") for ctx in self._stack) and kind != "handler":
            if not isinstance(node, (ast.Pass, ast.Break, ast.Continue, ast.Raise, ast.Return)):
                self._exc_targets(nid)
        return nid

    def _block(self, stmts: List[ast.stmt], frontier: List[Edge]) -> List[Edge]:
        frontier = list(frontier)
        for stmt in stmts:
            frontier = self._stmt(stmt, frontier)
        return frontier

    def _stmt(self, stmt: ast.stmt, frontier: List[Edge]) -> List[Edge]:
        if isinstance(stmt, ast.If):
            test = self._simple("test", stmt, frontier)
            body = self._block(stmt.body, [(test, "T")])
            orelse = self._block(stmt.orelse, [(test, "F")])
            return body + orelse
        if isinstance(stmt, ast.While):
            head = self._simple("test", stmt, frontier)
            ctx = _Ctx("loop")
            ctx.loop_head = head
            self._stack.append(ctx)
            body = self._block(stmt.body, [(head, "T")])
            self._stack.pop()
            self._connect(body, head)
            infinite = isinstance(stmt.test, ast.Constant) and bool(stmt.test.value)
            out = [] if infinite else self._block(stmt.orelse, [(head, "F")])
            return out + ctx.breaks
        if isinstance(stmt, (ast.For, ast.AsyncFor)):
            head = self._simple("loop", stmt, frontier)
            ctx = _Ctx("loop")
            ctx.loop_head = head
            self._stack.append(ctx)
            body = self._block(stmt.body, [(head, "T")])
            self._stack.pop()
            self._connect(body, head)
            out = self._block(stmt.orelse, [(head, "F")])
            return out + ctx.breaks
        if isinstance(stmt, (ast.With, ast.AsyncWith)):
            head = self._simple("with", stmt, frontier)
            return self._block(stmt.body, [(head, None)])
        if isinstance(stmt, ast.Try) or stmt.__class__.__name__ == "TryStar":
            return self._try(stmt, frontier)  # type: ignore[arg-type]
        if isinstance(stmt, ast.Return):
            nid = self._simple("stmt", stmt, frontier)
            self._connect(self._leave([(nid, None)], None), self.exit)
            return []
        if isinstance(stmt, ast.Raise):
            nid = self._simple("stmt", stmt, frontier)
            self._exc_targets(nid, "raise")
            return []
        if isinstance(stmt, (ast.Break, ast.Continue)):
            nid = self._simple("stmt", stmt, frontier)
            loop = next((c for c in reversed(self._stack) if c.kind == "loop"), None)
            if loop is None:
                return []
            out = self._leave([(nid, None)], loop)
            if isinstance(stmt, ast.Break):
                loop.breaks.extend(out)
            else:
                self._connect(out, loop.loop_head)
            return []
        nid = self._simple("stmt", stmt, frontier)
        if isinstance(stmt, ast.Assert) and isinstance(stmt.test, ast.Constant) and not stmt.test.value:
            self._exc_targets(nid, "raise")
            return []
        return [(nid, None)]

    def _try(self, stmt: ast.Try, frontier: List[Edge]) -> List[Edge]:
        fctx: Optional[_Ctx] = None
        if stmt.finalbody:
            fctx = _Ctx("finally")
            fctx.finalbody = stmt.finalbody
            self._stack.append(fctx)
        tctx = _Ctx("try")
        copy = getattr(self, "_copy_mode", 0) > 0
        for handler in stmt.handlers:
            tctx.handlers.append(self._new("handler", handler, copy))
            names = []
            if handler.type is None:
                tctx.catches_all = True
            else:
                elts = handler.type.elts if isinstance(handler.type, ast.Tuple) else [handler.type]
                names = [getattr(e, "id", getattr(e, "attr", "")) for e in elts]
                if "BaseException" in names or "Exception" in names:
                    tctx.catches_all = True
        if stmt.handlers:
            self._stack.append(tctx)
        body = self._block(stmt.body, frontier)
        if stmt.handlers:
            self._stack.pop()
        out = self._block(stmt.orelse, body)
        for handler, hnode in zip(stmt.handlers, tctx.handlers):
            out = out + self._block(handler.body, [(hnode, None)])
        if fctx is not None:
            self._stack.pop()
            out = self._block(stmt.finalbody, out)
        return out

    # -------------------------------------------------------------- queries
    def n(self, stmt: ast.AST) -> int:
        """ CFG node of a statement (or of the statement enclosing an expression) """
        cur: Optional[ast.AST] = stmt
        while cur is not None:
            if id(cur) in self.node_of:
                return self.node_of[id(cur)]
            cur = getattr(cur, "_parent", None)
            if cur is self.func:
                break
        raise KeyError(f"no CFG node for {ast.dump(stmt)[:80]}")

    def all_n(self, stmt: ast.AST) -> List[int]:
        cur: Optional[ast.AST] = stmt
        while cur is not None:
            if id(cur) in self.copies:
                return self.copies[id(cur)]
            cur = getattr(cur, "_parent", None)
            if cur is self.func:
                break
        raise KeyError(f"no CFG node for {ast.dump(stmt)[:80]}")

    def header_expr_nodes(self, nid: int) -> List[ast.AST]:
        """ the expressions evaluated *at* a node (not its nested blocks) """
        node = self.nodes[nid].ast
        if node is None:
            return []
        if isinstance(node, (ast.If, ast.While)):
            return [node.test]
        if isinstance(node, (ast.For, ast.AsyncFor)):
            return [node.iter, node.target]
        if isinstance(node, (ast.With, ast.AsyncWith)):
            result: List[ast.AST] = []
            for item in node.items:
                result.append(item.context_expr)
                if item.optional_vars is not None:
                    result.append(item.optional_vars)
            return result
        if isinstance(node, ast.ExceptHandler):
            return [node.type] if node.type is not None else []
        if isinstance(node, (ast.FunctionDef, ast.AsyncFunctionDef, ast.ClassDef)):
            return list(node.decorator_list)
        if isinstance(node, ast.AnnAssign):
            return [node.target] + ([node.value] if node.value is not None else [])
        return [node]

    def defs_at(self, nid: int) -> Set[str]:
        node = self.nodes[nid].ast
        if node is None:
            return set()
        if isinstance(node, (ast.If, ast.While)):
            return {n.target.id for n in ast.walk(node.test)
                    if isinstance(n, ast.NamedExpr) and isinstance(n.target, ast.Name)}
        if isinstance(node, (ast.For, ast.AsyncFor, ast.With, ast.AsyncWith, ast.ExceptHandler,
                             ast.FunctionDef, ast.AsyncFunctionDef, ast.ClassDef)):
            # stmt_defs looks only at the header for these
            if isinstance(node, (ast.FunctionDef, ast.AsyncFunctionDef, ast.ClassDef)):
                return {node.name}
            if isinstance(node, ast.ExceptHandler):
                return {node.name} if node.name else set()
            base: Set[str] = set()
            if isinstance(node, (ast.For, ast.AsyncFor)):
                base = {n.id for n in ast.walk(node.target) if isinstance(n, ast.Name)}
            else:
                for item in node.items:
                    if item.optional_vars is not None:
                        base |= {n.id for n in ast.walk(item.optional_vars) if isinstance(n, ast.Name)}
            return base
        return stmt_defs(node)

    def uses_at(self, nid: int) -> Set[str]:
        result: Set[str] = set()
        for expr in self.header_expr_nodes(nid):
            result |= free_loads(expr)
        return result

    def reach(self, start: Iterable[int], avoid: Iterable[int] = (), labels_excluded: Iterable[str] = (),
              include_start: bool = False, edges_excluded: Iterable[Tuple[int, Optional[str]]] = (),
              within: Optional[Set[int]] = None) -> Set[int]:
        """ nodes reachable from the successors of `start` without entering `avoid`;
            edges_excluded: (source node, label) pairs that may not be followed;
            within: if given, only nodes of this set are entered """
        avoid = set(avoid)
        excluded = set(labels_excluded)
        no_edge = set(edges_excluded)
        seen: Set[int] = set()
        stack = []
        for src in start:
            if include_start and src not in avoid:
                seen.add(src)
            for dst, label in self.succ[src]:
                if label not in excluded and (src, label) not in no_edge:
                    stack.append(dst)
        while stack:
            cur = stack.pop()
            if cur in seen or cur in avoid or (within is not None and cur not in within):
                continue
            seen.add(cur)
            for dst, label in self.succ[cur]:
                if label not in excluded and (cur, label) not in no_edge:
                    stack.append(dst)
        return seen

    def guarded_on_all_paths(self, src: int, dst: int, test_nodes_with_label: Iterable[Tuple[int, str]],
                             within: Optional[Set[int]] = None) -> bool:
        """ every path src -> dst leaves one of the given test nodes by the given label:
            there is no path when, at those tests, only the *other* edges may be followed
            and ... equivalently dst is unreachable once the wanted edges are cut AND
            dst is unreachable without touching the tests at all. """
        wanted = set(test_nodes_with_label)
        # cut the wanted edges: if dst is still reachable, some path avoids them
        scope = None if within is None else (within | {dst})
        return dst not in self.reach([src], edges_excluded=wanted, within=scope)

    def exists_path(self, src: int, dst: int, avoid: Iterable[int] = (),
                    labels_excluded: Iterable[str] = ()) -> bool:
        """ is there a path of >= 1 edge from src to dst avoiding `avoid` (dst itself may be in avoid: no) """
        return dst in self.reach([src], set(avoid) - {dst}, labels_excluded)

    def find_path(self, src: int, dst: int, avoid: Iterable[int] = ()) -> Optional[List[int]]:
        """ a shortest path of >= 1 edge from src to dst whose inner nodes avoid `avoid` """
        avoid = set(avoid) - {dst}
        prev: Dict[int, int] = {}
        queue = [src]
        first = True
        while queue:
            cur = queue.pop(0)
            for nxt, _ in self.succ[cur]:
                if nxt == dst:
                    path = [dst, cur]
                    while path[-1] != src:
                        path.append(prev[path[-1]])
                    return list(reversed(path))
                if nxt in avoid or nxt in prev or nxt == src:
                    continue
                prev[nxt] = cur
                queue.append(nxt)
            first = False
        return None

    def describe_path(self, path: Optional[List[int]]) -> str:
        if not path:
            return ""
        parts = []
        for nid in path:
            node = self.nodes[nid]
            line = getattr(node.ast, "lineno", None)
            parts.append(f"{node.kind}@{line}" if line else node.kind)
        return " -> ".join(parts)

    def _dominators(self, root: int, succ: Dict[int, List[Edge]], pred: Dict[int, List[Edge]]) -> Dict[int, Set[int]]:
        reachable = {root}
        stack = [root]
        while stack:
            cur = stack.pop()
            for nxt, _ in succ[cur]:
                if nxt not in reachable:
                    reachable.add(nxt)
                    stack.append(nxt)
        dom: Dict[int, Set[int]] = {n: set(reachable) for n in reachable}
        dom[root] = {root}
        changed = True
        order = sorted(reachable)
        while changed:
            changed = False
            for nid in order:
                if nid == root:
                    continue
                preds = [p for p, _ in pred[nid] if p in reachable]
                new = set.intersection(*(dom[p] for p in preds)) if preds else set()
                new = new | {nid}
                if new != dom[nid]:
                    dom[nid] = new
                    changed = True
        return dom

    def dominators(self) -> Dict[int, Set[int]]:
        if self._dom is None:
            self._dom = self._dominators(self.entry, self.succ, self.pred)
        return self._dom

    def postdominators(self, include_raise: bool = False) -> Dict[int, Set[int]]:
        """ post-dominators w.r.t. the normal exit (raise paths ignored unless asked) """
        if self._pdom is None or include_raise:
            succ = {k: list(v) for k, v in self.pred.items()}
            pred = {k: list(v) for k, v in self.succ.items()}
            if include_raise:
                virtual = len(self.nodes)
                succ[virtual] = [(self.exit, None), (self.raise_exit, None)]
                pred[virtual] = []
                pred[self.exit] = pred[self.exit] + [(virtual, None)]
                pred[self.raise_exit] = pred[self.raise_exit] + [(virtual, None)]
                return self._dominators(virtual, succ, pred)
            self._pdom = self._dominators(self.exit, succ, pred)
        return self._pdom

    def dominates(self, a: int, b: int) -> bool:
        return a in self.dominators().get(b, set())

    def postdominates(self, a: int, b: int) -> bool:
        """ every path from b to the normal exit passes a """
        return a in self.postdominators().get(b, set())

    def def_nodes(self, name: str) -> List[int]:
        return [n.id for n in self.nodes if name in self.defs_at(n.id)]

    def loop_body_nodes(self, loop: ast.AST) -> Set[int]:
        result: Set[int] = set()
        for stmt in getattr(loop, "body", []):
            for cur in [stmt] + list(walk_local(stmt)):
                for nid in self.copies.get(id(cur), []):
                    result.add(nid)
        return result

    def reaching_defs(self, name: str, at: int) -> Set[int]:
        """ def nodes of `name` with a def-free path to `at`; -1 stands for 'undefined on entry' """
        defs = set(self.def_nodes(name))
        result: Set[int] = set()
        for d in defs:
            if self.exists_path(d, at, avoid=defs - {at}):
                result.add(d)
        if at == self.entry or self.exists_path(self.entry, at, avoid=defs - {at}):
            result.add(-1)
        return result
