""" Repository index: parsed modules, functions, classes (with C3 MRO) and a
    resolver for constants (module- and class-level literals).

    Fail-closed: looking up an anchor that does not exist raises AnalysisError,
    which the CLI turns into `ANALYSIS-ERROR` / exit 2.
"""

from __future__ import annotations

import ast
import hashlib
import os
from dataclasses import dataclass, field
from typing import Any, Dict, Iterator, List, Optional, Tuple


class AnalysisError(Exception):
    """ An anchor vanished or a construct is outside every recognised idiom """


UNRESOLVED = object()


@dataclass
class Module:
    rel: str            # path relative to the repo root, e.g. antismash/common/x.py
    name: str           # dotted module name
    source: str
    tree: ast.Module
    imports: Dict[str, str] = field(default_factory=dict)   # local name -> dotted target

    @property
    def lines(self) -> List[str]:
        return self.source.splitlines()


@dataclass
class ClassInfo:
    module: Module
    node: ast.ClassDef
    qual: str           # module.name + "." + class name

    @property
    def name(self) -> str:
        return self.node.name


def _is_test_path(rel: str) -> bool:
    parts = rel.split(os.sep)
    return "test" in parts or "tests" in parts or parts[-1].startswith("test_")


def _add_parents(tree: ast.AST) -> None:
    for node in ast.walk(tree):
        for child in ast.iter_child_nodes(node):
            child._parent = node  # type: ignore[attr-defined]


class Repo:
    """ All non-test python modules under <root>/antismash """

    def __init__(self, root: str, overlay: Optional[Dict[str, str]] = None) -> None:
        self.root = os.path.abspath(root)
        self.overlay = dict(overlay or {})
        self.modules: Dict[str, Module] = {}
        self.by_name: Dict[str, Module] = {}
        self.classes: Dict[str, List[ClassInfo]] = {}
        self._mro_cache: Dict[str, List[ClassInfo]] = {}
        self.consulted: set[str] = set()
        self._load()

    # ------------------------------------------------------------------ load
    def _load(self) -> None:
        base = os.path.join(self.root, "antismash")
        if not os.path.isdir(base):
            raise AnalysisError(f"no antismash package under {self.root}")
        for dirpath, dirnames, filenames in os.walk(base):
            dirnames.sort()
            for fname in sorted(filenames):
                if not fname.endswith(".py"):
                    continue
                full = os.path.join(dirpath, fname)
                rel = os.path.relpath(full, self.root)
                if _is_test_path(rel):
                    continue
                if rel in self.overlay:
                    source = self.overlay[rel]
                else:
                    with open(full, encoding="utf-8") as handle:
                        source = handle.read()
                try:
                    tree = ast.parse(source, filename=rel)
                except SyntaxError as err:
                    raise AnalysisError(f"{rel}: does not parse: {err}") from err
                from .desugar import desugar
                from .renest import renest
                desugar(tree)
                renest(tree, rel)
                _add_parents(tree)
                name = rel[:-3].replace(os.sep, ".")
                if name.endswith(".__init__"):
                    name = name[:-len(".__init__")]
                module = Module(rel, name, source, tree)
                module.imports = self._imports(module)
                self.modules[rel] = module
                self.by_name[name] = module
        for module in self.modules.values():
            for node in ast.walk(module.tree):
                if isinstance(node, ast.ClassDef):
                    info = ClassInfo(module, node, f"{module.name}.{node.name}")
                    self.classes.setdefault(node.name, []).append(info)

    @staticmethod
    def _imports(module: Module) -> Dict[str, str]:
        result: Dict[str, str] = {}
        pkg_parts = module.name.split(".")
        is_pkg = module.rel.endswith("__init__.py")
        for node in ast.walk(module.tree):
            if isinstance(node, ast.Import):
                for alias in node.names:
                    result[alias.asname or alias.name.split(".")[0]] = alias.name if alias.asname else alias.name.split(".")[0]
            elif isinstance(node, ast.ImportFrom):
                if node.level:
                    base = pkg_parts if is_pkg else pkg_parts[:-1]
                    if node.level > 1:
                        base = base[:len(base) - (node.level - 1)]
                    prefix = ".".join(base + ([node.module] if node.module else []))
                else:
                    prefix = node.module or ""
                for alias in node.names:
                    result[alias.asname or alias.name] = f"{prefix}.{alias.name}" if prefix else alias.name
        return result

    # --------------------------------------------------------------- lookups
    def mod(self, rel: str) -> Module:
        module = self.modules.get(rel)
        if module is None:
            raise AnalysisError(f"anchor module vanished: {rel}")
        self.consulted.add(rel)
        return module

    def digest(self, rels: Optional[List[str]] = None) -> str:
        sha = hashlib.sha256()
        for rel in sorted(rels if rels is not None else self.modules):
            sha.update(rel.encode())
            sha.update(self.modules[rel].source.encode())
        return sha.hexdigest()

    def func(self, rel: str, qual: str) -> ast.FunctionDef:
        """ qual: 'f', 'Class.method', 'outer.inner' """
        module = self.mod(rel)
        scope: ast.AST = module.tree
        for part in qual.split("."):
            found = None
            for node in _scope_children(scope):
                if isinstance(node, (ast.FunctionDef, ast.AsyncFunctionDef, ast.ClassDef)) and node.name == part:
                    found = node
            if found is None:
                raise AnalysisError(f"anchor vanished: {rel}::{qual} (no '{part}')")
            scope = found
        if not isinstance(scope, (ast.FunctionDef, ast.AsyncFunctionDef)):
            raise AnalysisError(f"anchor {rel}::{qual} is not a function")
        return scope  # type: ignore[return-value]

    def has_func(self, rel: str, qual: str) -> bool:
        try:
            self.func(rel, qual)
            return True
        except AnalysisError:
            return False

    def cls(self, rel: str, name: str) -> ClassInfo:
        module = self.mod(rel)
        scope: ast.AST = module.tree
        for part in name.split("."):
            found = None
            for node in _scope_children(scope):
                if isinstance(node, ast.ClassDef) and node.name == part:
                    found = node
            if found is None:
                raise AnalysisError(f"anchor class vanished: {rel}::{name}")
            scope = found
        for info in self.classes.get(name.split(".")[-1], []):
            if info.node is scope:
                return info
        raise AnalysisError(f"anchor class vanished: {rel}::{name}")

    def functions(self, rel: str) -> Iterator[Tuple[str, ast.FunctionDef]]:
        """ every function (incl. methods, nested) with its qualified name """
        module = self.mod(rel)
        yield from _walk_functions(module.tree, "")

    def all_functions(self) -> Iterator[Tuple[Module, str, ast.FunctionDef]]:
        for rel in sorted(self.modules):
            module = self.modules[rel]
            for qual, node in _walk_functions(module.tree, ""):
                yield module, qual, node

    # ------------------------------------------------------------ class tools
    def resolve_class(self, module: Module, expr: ast.AST) -> Optional[ClassInfo]:
        """ resolve a base-class / type expression to a ClassInfo """
        name = dotted(expr)
        if name is None:
            if isinstance(expr, ast.Subscript):
                return self.resolve_class(module, expr.value)
            return None
        head, _, rest = name.partition(".")
        # local class
        last = name.split(".")[-1]
        candidates = self.classes.get(last, [])
        if not candidates:
            return None
        for info in candidates:
            if info.module is module and not rest:
                return info
        target = module.imports.get(head)
        if target:
            full = target + ("." + rest if rest else "")
            for info in candidates:
                if info.qual == full:
                    return info
            # re-exported through a package __init__: follow one or more hops
            seen = set()
            cur = full
            while cur not in seen:
                seen.add(cur)
                modname, _, attr = cur.rpartition(".")
                source = self.by_name.get(modname)
                if source is None:
                    break
                nxt = source.imports.get(attr)
                if nxt is None:
                    break
                for info in candidates:
                    if info.qual == nxt:
                        return info
                cur = nxt
        if len(candidates) == 1:
            return candidates[0]
        return None

    def bases(self, info: ClassInfo) -> List[ClassInfo]:
        result = []
        for base in info.node.bases:
            resolved = self.resolve_class(info.module, base)
            if resolved is not None:
                result.append(resolved)
        return result

    def mro(self, info: ClassInfo) -> List[ClassInfo]:
        if info.qual in self._mro_cache:
            return self._mro_cache[info.qual]
        seqs = [self.mro(base)[:] for base in self.bases(info)] + [self.bases(info)[:]]
        result = [info]
        while True:
            seqs = [seq for seq in seqs if seq]
            if not seqs:
                break
            for seq in seqs:
                cand = seq[0]
                if not any(cand in other[1:] for other in seqs):
                    break
            else:
                raise AnalysisError(f"inconsistent MRO for {info.qual}")
            result.append(cand)
            for seq in seqs:
                if seq[0] is cand:
                    del seq[0]
        self._mro_cache[info.qual] = result
        return result

    def is_subclass(self, info: ClassInfo, ancestor_name: str) -> bool:
        return any(c.name == ancestor_name for c in self.mro(info))

    def subclasses(self, ancestor_name: str) -> List[ClassInfo]:
        result = []
        for infos in self.classes.values():
            for info in infos:
                if any(c.name == ancestor_name for c in self.mro(info)[1:]):
                    result.append(info)
        return sorted(result, key=lambda i: i.qual)

    def method(self, info: ClassInfo, name: str, inherited: bool = True
               ) -> Optional[Tuple[ClassInfo, ast.FunctionDef]]:
        for cls in (self.mro(info) if inherited else [info]):
            for node in cls.node.body:
                if isinstance(node, (ast.FunctionDef, ast.AsyncFunctionDef)) and node.name == name:
                    return cls, node  # type: ignore[return-value]
        return None

    def class_attr_node(self, info: ClassInfo, name: str) -> Optional[Tuple[ClassInfo, ast.AST]]:
        for cls in self.mro(info):
            for node in cls.node.body:
                if isinstance(node, ast.Assign):
                    for target in node.targets:
                        if isinstance(target, ast.Name) and target.id == name:
                            return cls, node.value
                elif isinstance(node, ast.AnnAssign) and node.value is not None:
                    if isinstance(node.target, ast.Name) and node.target.id == name:
                        return cls, node.value
        return None

    # -------------------------------------------------------- constant values
    def module_const_node(self, module: Module, name: str) -> Optional[ast.AST]:
        found = None
        for node in module.tree.body:
            if isinstance(node, ast.Assign):
                for target in node.targets:
                    if isinstance(target, ast.Name) and target.id == name:
                        found = node.value
            elif isinstance(node, ast.AnnAssign) and node.value is not None:
                if isinstance(node.target, ast.Name) and node.target.id == name:
                    found = node.value
        return found

    def const(self, module: Module, expr: ast.AST, depth: int = 0,
              cls: Optional[ClassInfo] = None) -> Any:
        """ evaluate a literal-ish expression; returns UNRESOLVED when not static """
        if depth > 8:
            return UNRESOLVED
        rec = lambda e: self.const(module, e, depth + 1, cls)  # noqa: E731
        if isinstance(expr, ast.Constant):
            return expr.value
        if isinstance(expr, (ast.Tuple, ast.List, ast.Set)):
            vals = [rec(e) for e in expr.elts]
            if any(v is UNRESOLVED for v in vals):
                return UNRESOLVED
            try:
                if isinstance(expr, ast.Tuple):
                    return tuple(vals)
                if isinstance(expr, ast.List):
                    return list(vals)
                return frozenset(vals)
            except TypeError:
                return UNRESOLVED
        if isinstance(expr, ast.Dict):
            keys = [rec(k) if k is not None else UNRESOLVED for k in expr.keys]
            vals = [rec(v) for v in expr.values]
            if any(k is UNRESOLVED for k in keys):
                return UNRESOLVED
            try:
                return {k: v for k, v in zip(keys, vals)}
            except TypeError:
                return UNRESOLVED
        if isinstance(expr, ast.Name):
            node = self.module_const_node(module, expr.id)
            if node is not None:
                return self.const(module, node, depth + 1, None)
            target = module.imports.get(expr.id)
            if target:
                modname, _, attr = target.rpartition(".")
                other = self.by_name.get(modname)
                if other is not None:
                    return self.const(other, ast.Name(id=attr, ctx=ast.Load()), depth + 1, None)
            return UNRESOLVED
        if isinstance(expr, ast.Attribute):
            # Class.ATTR  /  module.ATTR
            owner = self.resolve_class(module, expr.value)
            if owner is not None:
                found = self.class_attr_node(owner, expr.attr)
                if found is not None:
                    return self.const(found[0].module, found[1], depth + 1, found[0])
                return UNRESOLVED
            base = dotted(expr.value)
            if base and base in module.imports:
                other = self.by_name.get(module.imports[base])
                if other is not None:
                    return self.const(other, ast.Name(id=expr.attr, ctx=ast.Load()), depth + 1, None)
            return UNRESOLVED
        if isinstance(expr, ast.Call):
            fname = dotted(expr.func)
            if fname in ("set", "frozenset", "tuple", "list", "sorted") and len(expr.args) <= 1 and not expr.keywords:
                if not expr.args:
                    return frozenset() if fname in ("set", "frozenset") else ([] if fname != "tuple" else ())
                val = rec(expr.args[0])
                if val is UNRESOLVED:
                    return UNRESOLVED
                try:
                    if fname in ("set", "frozenset"):
                        return frozenset(val)
                    if fname == "tuple":
                        return tuple(val)
                    if fname == "sorted":
                        return sorted(val)
                    return list(val)
                except TypeError:
                    return UNRESOLVED
            if isinstance(expr.func, ast.Attribute) and expr.func.attr in ("union", "intersection", "difference"):
                left = rec(expr.func.value)
                rights = [rec(a) for a in expr.args]
                if left is UNRESOLVED or any(r is UNRESOLVED for r in rights):
                    return UNRESOLVED
                try:
                    acc = frozenset(left)
                    for r in rights:
                        acc = getattr(acc, expr.func.attr)(frozenset(r))
                    return acc
                except TypeError:
                    return UNRESOLVED
            return UNRESOLVED
        if isinstance(expr, ast.BinOp):
            left, right = rec(expr.left), rec(expr.right)
            if left is UNRESOLVED or right is UNRESOLVED:
                return UNRESOLVED
            try:
                if isinstance(expr.op, ast.Add):
                    return left + right
                if isinstance(expr.op, ast.BitOr):
                    return left | right
                if isinstance(expr.op, ast.Sub):
                    return left - right
                if isinstance(expr.op, ast.Mult):
                    return left * right
            except TypeError:
                return UNRESOLVED
            return UNRESOLVED
        if isinstance(expr, ast.UnaryOp) and isinstance(expr.op, ast.USub):
            val = rec(expr.operand)
            return -val if isinstance(val, (int, float)) else UNRESOLVED
        return UNRESOLVED


def _scope_children(scope: ast.AST) -> Iterator[ast.AST]:
    """ definitions directly in a scope, looking through if/try/with blocks """
    body = getattr(scope, "body", [])
    stack = list(body)
    while stack:
        node = stack.pop(0)
        yield node
        if isinstance(node, (ast.If, ast.Try, ast.With, ast.For, ast.While)):
            for attr in ("body", "orelse", "finalbody"):
                stack.extend(getattr(node, attr, []))
            for handler in getattr(node, "handlers", []):
                stack.extend(handler.body)


def _walk_functions(scope: ast.AST, prefix: str) -> Iterator[Tuple[str, ast.FunctionDef]]:
    for node in _scope_children(scope):
        if isinstance(node, (ast.FunctionDef, ast.AsyncFunctionDef)):
            qual = prefix + node.name
            yield qual, node  # type: ignore[misc]
            yield from _walk_functions(node, qual + ".")
        elif isinstance(node, ast.ClassDef):
            yield from _walk_functions(node, prefix + node.name + ".")


def dotted(node: ast.AST) -> Optional[str]:
    """ 'a.b.c' for Name/Attribute chains, else None """
    parts = []
    while isinstance(node, ast.Attribute):
        parts.append(node.attr)
        node = node.value
    if isinstance(node, ast.Name):
        parts.append(node.id)
        return ".".join(reversed(parts))
    return None
