""" Small AST helpers shared by the rules """

from __future__ import annotations

import ast
from typing import Callable, Iterable, Iterator, List, Optional, Set

from .index import dotted

FuncT = (ast.FunctionDef, ast.AsyncFunctionDef, ast.Lambda)


def txt(node: Optional[ast.AST]) -> str:
    """ normalised source text of a node (formatting- and comment-insensitive) """
    if node is None:
        return ""
    if isinstance(node, list):
        return "; ".join(txt(n) for n in node)
    try:
        return ast.unparse(node)
    except Exception:  # pragma: no cover
        return ast.dump(node)


def stmt_key(node: ast.AST) -> str:
    """ a line-number free key for a statement: its first line of normalised text """
    text = txt(node)
    return text.split("\n")[0][:160]


def walk_local(node: ast.AST, into_nested: bool = False) -> Iterator[ast.AST]:
    """ ast.walk that does not descend into nested function/class definitions
        (the root itself may be a function) """
    stack = list(reversed(list(ast.iter_child_nodes(node))))
    while stack:
        cur = stack.pop()
        yield cur
        if not into_nested and isinstance(cur, (ast.FunctionDef, ast.AsyncFunctionDef, ast.ClassDef, ast.Lambda)):
            continue
        stack.extend(reversed(list(ast.iter_child_nodes(cur))))


def calls(node: ast.AST, into_nested: bool = False) -> Iterator[ast.Call]:
    nodes = walk_local(node, into_nested)
    for cur in nodes:
        if isinstance(cur, ast.Call):
            yield cur
    if isinstance(node, ast.Call):
        yield node


def call_name(call: ast.Call) -> str:
    """ dotted callee text; for non-dotted callees the unparsed text """
    name = dotted(call.func)
    if name is not None:
        return name
    if isinstance(call.func, ast.Attribute):
        return txt(call.func)
    return txt(call.func)


def last_attr(call: ast.Call) -> str:
    if isinstance(call.func, ast.Attribute):
        return call.func.attr
    if isinstance(call.func, ast.Name):
        return call.func.id
    return ""


def kwarg(call: ast.Call, name: str) -> Optional[ast.AST]:
    for kw in call.keywords:
        if kw.arg == name:
            return kw.value
    return None


def arg_of(call: ast.Call, pos: int, name: Optional[str] = None) -> Optional[ast.AST]:
    if name is not None:
        found = kwarg(call, name)
        if found is not None:
            return found
    if pos is not None and 0 <= pos < len(call.args):
        arg = call.args[pos]
        if not isinstance(arg, ast.Starred):
            return arg
    return None


def names_in(node: ast.AST) -> Set[str]:
    return {n.id for n in ast.walk(node) if isinstance(n, ast.Name)}


def attr_paths_in(node: ast.AST) -> Set[str]:
    result = set()
    for cur in ast.walk(node):
        path = dotted(cur)
        if path is not None:
            result.add(path)
    return result


def parent(node: ast.AST) -> Optional[ast.AST]:
    return getattr(node, "_parent", None)


def ancestors(node: ast.AST) -> Iterator[ast.AST]:
    cur = parent(node)
    while cur is not None:
        yield cur
        cur = parent(cur)


def enclosing_stmt(node: ast.AST) -> ast.stmt:
    cur: Optional[ast.AST] = node
    while cur is not None and not isinstance(cur, ast.stmt):
        cur = parent(cur)
    assert cur is not None
    return cur  # type: ignore[return-value]


def enclosing_function(node: ast.AST) -> Optional[ast.AST]:
    for anc in ancestors(node):
        if isinstance(anc, (ast.FunctionDef, ast.AsyncFunctionDef)):
            return anc
    return None


def enclosing_loops(node: ast.AST, stop: Optional[ast.AST] = None) -> List[ast.AST]:
    result = []
    for anc in ancestors(node):
        if anc is stop:
            break
        if isinstance(anc, FuncT):
            break
        if isinstance(anc, (ast.For, ast.While)):
            result.append(anc)
    return result


def guards(node: ast.AST, stop: Optional[ast.AST] = None) -> List[tuple]:
    """ the (test, polarity) pairs of every enclosing `if`/`while`/ternary whose
        arm contains the node (syntactic control dependence; early-exit guards
        are handled by the CFG-based variants) """
    result = []
    child = node
    for anc in ancestors(node):
        if anc is stop or isinstance(anc, FuncT):
            break
        if isinstance(anc, ast.If) or isinstance(anc, ast.While):
            if any(child is s for s in anc.body):
                result.append((anc.test, True))
            elif any(child is s for s in anc.orelse):
                result.append((anc.test, False))
        elif isinstance(anc, ast.IfExp):
            if child is anc.body:
                result.append((anc.test, True))
            elif child is anc.orelse:
                result.append((anc.test, False))
        child = anc
    return result


def assigned_names(target: ast.AST) -> Set[str]:
    """ plain names bound by an assignment target """
    result: Set[str] = set()
    for cur in ast.walk(target):
        if isinstance(cur, ast.Name) and isinstance(cur.ctx, (ast.Store, ast.Del)):
            result.add(cur.id)
    return result


def stmt_defs(stmt: ast.AST) -> Set[str]:
    """ names (re)bound by one statement node of the CFG (not its nested blocks) """
    result: Set[str] = set()
    if isinstance(stmt, ast.Assign):
        for target in stmt.targets:
            result |= assigned_names(target)
    elif isinstance(stmt, (ast.AugAssign, ast.AnnAssign)):
        if not (isinstance(stmt, ast.AnnAssign) and stmt.value is None):
            result |= assigned_names(stmt.target)
    elif isinstance(stmt, (ast.For, ast.AsyncFor)):
        result |= assigned_names(stmt.target)
    elif isinstance(stmt, (ast.With, ast.AsyncWith)):
        for item in stmt.items:
            if item.optional_vars is not None:
                result |= assigned_names(item.optional_vars)
    elif isinstance(stmt, (ast.FunctionDef, ast.AsyncFunctionDef, ast.ClassDef)):
        result.add(stmt.name)
    elif isinstance(stmt, (ast.Import, ast.ImportFrom)):
        for alias in stmt.names:
            result.add((alias.asname or alias.name).split(".")[0])
    elif isinstance(stmt, ast.ExceptHandler):
        if stmt.name:
            result.add(stmt.name)
    # walrus
    if isinstance(stmt, ast.AST):
        for cur in walk_local(stmt):
            if isinstance(cur, ast.NamedExpr) and isinstance(cur.target, ast.Name):
                result.add(cur.target.id)
    return result


def find_all(node: ast.AST, pred: Callable[[ast.AST], bool], into_nested: bool = False) -> List[ast.AST]:
    return [cur for cur in walk_local(node, into_nested) if pred(cur)]


def returns(func: ast.AST) -> List[ast.Return]:
    return [n for n in walk_local(func) if isinstance(n, ast.Return)]  # type: ignore[misc]


def raises(func: ast.AST) -> List[ast.Raise]:
    return [n for n in walk_local(func) if isinstance(n, ast.Raise)]  # type: ignore[misc]


def is_const(node: Optional[ast.AST], value) -> bool:
    return isinstance(node, ast.Constant) and node.value is value or (
        isinstance(node, ast.Constant) and type(node.value) is type(value) and node.value == value)


def params(func: ast.FunctionDef) -> List[str]:
    args = func.args
    return [a.arg for a in args.posonlyargs + args.args + args.kwonlyargs]


def func_contains(func: ast.AST, node: ast.AST) -> bool:
    return any(cur is node for cur in ast.walk(func))


def strip_loc(text_nodes: Iterable[ast.AST]) -> List[str]:
    return [txt(n) for n in text_nodes]


def clone(node):
    """ structural copy of an AST (sub)tree: fields and source positions only - unlike copy.deepcopy it does not
        follow the `_parent` back-links (which would copy the whole module) """
    if isinstance(node, list):
        return [clone(x) for x in node]
    if not isinstance(node, ast.AST):
        return node
    new = node.__class__()
    for name, value in ast.iter_fields(node):
        setattr(new, name, clone(value))
    for attr in ("lineno", "col_offset", "end_lineno", "end_col_offset"):
        if hasattr(node, attr):
            setattr(new, attr, getattr(node, attr))
    return new


def link_parents(root: ast.AST, parent=None) -> ast.AST:
    """ (re)create the `_parent` links below root """
    root._parent = parent  # type: ignore[attr-defined]
    for node in ast.walk(root):
        for child in ast.iter_child_nodes(node):
            child._parent = node  # type: ignore[attr-defined]
    return root
