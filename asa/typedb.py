""" Expression types from mypy, used as a library (the repository's own /venv
    ships mypy 1.9.0 and setup.cfg configures it).

    One build of the `antismash` package (tests excluded) exports, per module,
    position -> type string for the expressions the rules care about:
    set-like values (family E) and values whose type is a secmet Feature
    (R09.2).  Positions are (line, col, end_line, end_col), joined to `ast`
    nodes by the rules.  The result is cached by a digest of every consulted
    source file; a changed tree is re-typed.
"""

from __future__ import annotations

import hashlib
import json
import os
import subprocess
import sys
from typing import Dict, Optional, Tuple

from .index import Repo

VERIF = os.path.dirname(os.path.dirname(os.path.abspath(__file__)))
CACHE = os.path.join(VERIF, ".cache")

Pos = Tuple[int, int, int, int]


class TypeDB:
    def __init__(self, data: Dict[str, Dict[str, str]], stats: Dict[str, int], digest: str) -> None:
        self.data = data
        self.stats = stats
        self.digest = digest

    def type_at(self, rel: str, node) -> Optional[str]:
        key = f"{node.lineno},{node.col_offset},{node.end_lineno},{node.end_col_offset}"
        return self.data.get(rel, {}).get(key)


def _digest(repo: Repo) -> str:
    sha = hashlib.sha256()
    sha.update(b"typedb-v4")
    for rel in sorted(repo.modules):
        sha.update(rel.encode())
        sha.update(repo.modules[rel].source.encode())
    return sha.hexdigest()


def load(repo: Repo) -> TypeDB:
    digest = _digest(repo)
    os.makedirs(CACHE, exist_ok=True)
    path = os.path.join(CACHE, f"typedb-{digest[:32]}.json")
    if os.path.exists(path):
        try:
            with open(path, encoding="utf-8") as handle:
                blob = json.load(handle)
            return TypeDB(blob["data"], blob["stats"], digest)
        except (OSError, ValueError, KeyError):
            pass
    # build in a child process: mypy's teardown is slow and its state is global
    overlay_path = ""
    if repo.overlay:
        overlay_path = os.path.join(CACHE, f"overlay-{digest[:16]}.json")
        with open(overlay_path, "w", encoding="utf-8") as handle:
            json.dump(repo.overlay, handle)
    tmp = path + f".{os.getpid()}.tmp"
    cmd = [sys.executable, "-m", "asa.typedb_worker", repo.root, tmp, overlay_path]
    proc = subprocess.run(cmd, cwd=VERIF, capture_output=True, text=True, timeout=900)
    if overlay_path and os.path.exists(overlay_path):
        os.unlink(overlay_path)
    if proc.returncode != 0 or not os.path.exists(tmp):
        from .index import AnalysisError
        raise AnalysisError(f"mypy type export failed (exit {proc.returncode}): {proc.stderr[-400:]}")
    os.replace(tmp, path)
    with open(path, encoding="utf-8") as handle:
        blob = json.load(handle)
    # keep the cache directory small: finished entries only (another process's `.tmp` is still being written),
    # and tolerate entries that a concurrent run removes meanwhile
    entries = []
    for name in os.listdir(CACHE):
        if name.startswith("typedb-") and name.endswith(".json"):
            try:
                entries.append((os.path.getmtime(os.path.join(CACHE, name)), name))
            except OSError:
                pass
    for _, name in sorted(entries)[:-24]:
        try:
            os.unlink(os.path.join(CACHE, name))
        except OSError:
            pass
    return TypeDB(blob["data"], blob["stats"], digest)
