""" Child process: run mypy over <root>/antismash and dump interesting expression types.

    usage: python -m asa.typedb_worker <repo root> <output json> [<overlay json>]
"""

from __future__ import annotations

import json
import os
import sys


def main() -> int:
    root, out = sys.argv[1], sys.argv[2]
    overlay_path = sys.argv[3] if len(sys.argv) > 3 else ""
    overlay = {}
    if overlay_path:
        with open(overlay_path, encoding="utf-8") as handle:
            overlay = json.load(handle)
    os.chdir(root)
    from mypy import build
    from mypy.modulefinder import BuildSource
    from mypy.nodes import Expression, MypyFile, Node
    from mypy.options import Options
    from mypy.types import Instance, get_proper_type, UnionType, TupleType

    opts = Options()
    opts.preserve_asts = True
    opts.export_types = True
    opts.incremental = False
    opts.cache_dir = os.devnull
    opts.follow_imports = "silent"
    opts.ignore_missing_imports = True
    opts.implicit_optional = True
    opts.namespace_packages = True
    opts.show_traceback = False
    opts.python_version = (3, 12)
    opts.python_executable = sys.executable
    opts.per_module_options = {}
    sources = []
    for dirpath, dirnames, filenames in os.walk("antismash"):
        dirnames.sort()
        parts = dirpath.split(os.sep)
        if "test" in parts or "tests" in parts:
            continue
        for fname in sorted(filenames):
            if not fname.endswith(".py") or fname.startswith("test_"):
                continue
            rel = os.path.join(dirpath, fname)
            name = rel[:-3].replace(os.sep, ".")
            if name.endswith(".__init__"):
                name = name[:-len(".__init__")]
            sources.append(BuildSource(rel, name, overlay.get(rel)))
    result = build.build(sources, opts)
    types = result.types

    def summarise(typ, depth: int = 0) -> str:
        if depth > 4:
            return "..."
        typ = get_proper_type(typ)
        if isinstance(typ, Instance):
            name = typ.type.fullname
            if typ.args:
                return f"{name}[{', '.join(summarise(a, depth + 1) for a in typ.args)}]"
            return name
        if isinstance(typ, UnionType):
            return "Union[" + ", ".join(summarise(t, depth + 1) for t in typ.items) + "]"
        if isinstance(typ, TupleType):
            return "Tuple[" + ", ".join(summarise(t, depth + 1) for t in typ.items) + "]"
        return type(typ).__name__.replace("Type", "") or "?"

    def interesting(text: str) -> bool:
        return text not in ("Any", "?", "NoneType", "None") and len(text) < 300

    # features' MRO so that rules can ask "is this a Feature"
    mros = {}
    for modname, state in result.graph.items():
        tree = state.tree
        if tree is None or not modname.startswith("antismash"):
            continue
        for name, sym in tree.names.items():
            node = sym.node
            if node is not None and node.__class__.__name__ == "TypeInfo" and node.fullname.startswith("antismash"):
                mros[node.fullname] = [base.fullname for base in node.mro]

    data = {}
    stats = {"typed_expressions": 0, "kept": 0, "modules": 0, "errors": len(result.errors)}
    for modname, state in result.graph.items():
        tree = state.tree
        if tree is None or not isinstance(tree, MypyFile) or not modname.startswith("antismash"):
            continue
        path = state.path or ""
        if not path.endswith(".py"):
            continue
        stats["modules"] += 1
        table = {}
        seen = set()
        stack = [tree]
        skip_attrs = {"node", "info", "type", "func", "definition", "analyzed", "unanalyzed_type", "type_annotation",
                      "original_def", "impl", "var", "ref_expr", "mro", "names", "defn", "partial_fallback"}
        while stack:
            cur = stack.pop()
            if id(cur) in seen:
                continue
            seen.add(id(cur))
            if isinstance(cur, Expression):
                typ = types.get(cur)
                if typ is not None:
                    stats["typed_expressions"] += 1
                    end_line = getattr(cur, "end_line", None)
                    if end_line is not None and cur.line >= 0:
                        text = summarise(typ)
                        if interesting(text):
                            key = f"{cur.line},{cur.column},{end_line},{cur.end_column}"
                            table[key] = text
            for attr in dir(type(cur)):
                if attr.startswith("_") or attr in skip_attrs:
                    continue
                try:
                    val = getattr(cur, attr)
                except Exception:  # pylint: disable=broad-except
                    continue
                if isinstance(val, Node):
                    stack.append(val)
                elif isinstance(val, (list, tuple)):
                    for item in val:
                        if isinstance(item, Node):
                            stack.append(item)
                        elif isinstance(item, (list, tuple)):
                            for sub in item:
                                if isinstance(sub, Node):
                                    stack.append(sub)
                                elif isinstance(sub, (list, tuple)):
                                    stack.extend(x for x in sub if isinstance(x, Node))
        stats["kept"] += len(table)
        data[path] = table
    with open(out, "w", encoding="utf-8") as handle:
        json.dump({"data": data, "stats": stats, "mros": mros, "errors": result.errors[:20]}, handle)
    sys.stdout.flush()
    os._exit(0)


if __name__ == "__main__":
    main()
