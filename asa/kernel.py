""" Families A and B: comparison kernels and affine kernels.

    A *kernel* is a pure expression over integer atoms built from comparisons,
    `in` on a half-open location, +, -, constants, min, max, abs, and/or/not
    and conditional expressions.  Two kernels over n atoms in which every atom
    occurs with unit coefficient and constants are bounded by c are
    equivalent iff they agree on every point of the box [0, B]^n with
    B = n * (c + 1) + 2: the truth value / selected term of such an expression
    depends only on the total preorder of the offset atoms x_i + k, every such
    preorder is realised inside the box (integer difference logic small-model
    property), and on each preorder cell both sides are affine with unit
    coefficients, so agreement on the cell's box points extends to the cell.
    The box is enumerated with this module's own evaluator; no repository code
    is executed.

    Affine forms (family B) are computed symbolically: atom -> coefficient map
    plus a constant, through straight-line assignments.
"""

from __future__ import annotations

import ast
import copy
import itertools
from fractions import Fraction
from typing import Any, Callable, Dict, List, Optional, Sequence, Tuple

from .astutil import txt
from .index import AnalysisError, dotted
from .astutil import clone


class OutsideFragment(AnalysisError):
    """ the extracted expression uses something the kernel language lacks """


# ----------------------------------------------------------------- rewriting
class _Renamer(ast.NodeTransformer):
    def __init__(self, mapping: Dict[str, str]) -> None:
        self.mapping = mapping

    def visit_Attribute(self, node: ast.Attribute) -> ast.AST:
        path = dotted(node)
        if path is not None and path in self.mapping:
            return ast.copy_location(ast.Name(id=self.mapping[path], ctx=ast.Load()), node)
        return self.generic_visit(node)

    def visit_Name(self, node: ast.Name) -> ast.AST:
        if node.id in self.mapping:
            return ast.copy_location(ast.Name(id=self.mapping[node.id], ctx=ast.Load()), node)
        return node

    def visit_Call(self, node: ast.Call) -> ast.AST:
        text = txt(node)
        if text in self.mapping:
            return ast.copy_location(ast.Name(id=self.mapping[text], ctx=ast.Load()), node)
        return self.generic_visit(node)

    def visit_Subscript(self, node: ast.Subscript) -> ast.AST:
        text = txt(node)
        if text in self.mapping:
            return ast.copy_location(ast.Name(id=self.mapping[text], ctx=ast.Load()), node)
        return self.generic_visit(node)

    def visit_BinOp(self, node: ast.BinOp) -> ast.AST:
        text = txt(node)
        if text in self.mapping:
            return ast.copy_location(ast.Name(id=self.mapping[text], ctx=ast.Load()), node)
        return self.generic_visit(node)


def rename(expr: ast.AST, mapping: Dict[str, str]) -> ast.AST:
    """ replace maximal dotted paths / call texts found in mapping by atom names """
    return ast.fix_missing_locations(_Renamer(mapping).visit(clone(expr)))


def parse(text: str) -> ast.expr:
    return ast.parse(text, mode="eval").body


def atoms_of(expr: ast.AST) -> List[str]:
    """ free atoms (Names and dotted paths) of a kernel expression, in order """
    found: List[str] = []

    def visit(node: ast.AST) -> None:
        path = dotted(node)
        if path is not None:
            if path not in found and path not in ("min", "max", "abs", "True", "False", "len"):
                found.append(path)
            return
        if isinstance(node, ast.Call):
            for arg in node.args:
                visit(arg)
            return
        for child in ast.iter_child_nodes(node):
            visit(child)
    visit(expr)
    return found


def max_const(expr: ast.AST) -> int:
    vals = [abs(n.value) for n in ast.walk(expr)
            if isinstance(n, ast.Constant) and isinstance(n.value, int) and not isinstance(n.value, bool)]
    return max(vals) if vals else 0


# ---------------------------------------------------------------- evaluation
def evaluate(expr: ast.AST, env: Dict[str, Any]) -> Any:
    path = dotted(expr)
    if path is not None:
        if path in env:
            return env[path]
        raise OutsideFragment(f"unbound atom {path}")
    if isinstance(expr, ast.Constant):
        if isinstance(expr.value, (int, bool)):
            return expr.value
        if isinstance(expr.value, float):
            return Fraction(expr.value).limit_denominator(1000)
        raise OutsideFragment(f"constant {expr.value!r}")
    if isinstance(expr, ast.BinOp):
        left, right = evaluate(expr.left, env), evaluate(expr.right, env)
        if isinstance(expr.op, ast.Add):
            return left + right
        if isinstance(expr.op, ast.Sub):
            return left - right
        if isinstance(expr.op, ast.Mult):
            return left * right
        if isinstance(expr.op, ast.FloorDiv) and right != 0:
            return left // right
        if isinstance(expr.op, ast.Mod) and right != 0:
            return left % right
        if isinstance(expr.op, ast.Div) and right != 0:
            return Fraction(left) / Fraction(right)
        raise OutsideFragment(f"operator in {txt(expr)}")
    if isinstance(expr, ast.UnaryOp):
        val = evaluate(expr.operand, env)
        if isinstance(expr.op, ast.USub):
            return -val
        if isinstance(expr.op, ast.Not):
            return not val
        raise OutsideFragment(f"operator in {txt(expr)}")
    if isinstance(expr, ast.BoolOp):
        vals = [evaluate(v, env) for v in expr.values]  # total: no short-circuit needed, all pure
        if isinstance(expr.op, ast.And):
            result: Any = True
            for val in vals:
                if not val:
                    return val
                result = val
            return result
        for val in vals:
            if val:
                return val
        return vals[-1]
    if isinstance(expr, ast.Compare):
        left = evaluate(expr.left, env)
        for op, comp in zip(expr.ops, expr.comparators):
            if isinstance(op, (ast.In, ast.NotIn)):
                loc = dotted(comp)
                if loc is None or f"{loc}.start" not in env:
                    raise OutsideFragment(f"`in` on a non-location {txt(comp)}")
                inside = env[f"{loc}.start"] <= left < env[f"{loc}.end"]
                ok = inside if isinstance(op, ast.In) else not inside
                right = left
            else:
                right = evaluate(comp, env)
                ok = {ast.Lt: left < right, ast.LtE: left <= right, ast.Gt: left > right,
                      ast.GtE: left >= right, ast.Eq: left == right, ast.NotEq: left != right,
                      }.get(type(op))
                if ok is None:
                    raise OutsideFragment(f"comparison operator in {txt(expr)}")
            if not ok:
                return False
            left = right
        return True
    if isinstance(expr, ast.IfExp):
        return evaluate(expr.body, env) if evaluate(expr.test, env) else evaluate(expr.orelse, env)
    if isinstance(expr, ast.Tuple):
        return tuple(evaluate(e, env) for e in expr.elts)
    if isinstance(expr, ast.Call) and isinstance(expr.func, ast.Name) and expr.func.id in ("min", "max", "abs") \
            and not expr.keywords:
        args = [evaluate(a, env) for a in expr.args]
        if len(args) == 1 and isinstance(args[0], tuple):
            args = list(args[0])
        return {"min": min, "max": max, "abs": lambda *a: abs(a[0])}[expr.func.id](*args)
    raise OutsideFragment(f"outside the kernel fragment: {txt(expr)[:100]}")


def _location_atoms(exprs: Sequence[ast.AST]) -> List[str]:
    """ atoms X used as `y in X` expand to X.start / X.end """
    locs = []
    for expr in exprs:
        for node in ast.walk(expr):
            if isinstance(node, ast.Compare):
                for op, comp in zip(node.ops, node.comparators):
                    if isinstance(op, (ast.In, ast.NotIn)):
                        loc = dotted(comp)
                        if loc and loc not in locs:
                            locs.append(loc)
    return locs


def decide(left: ast.AST, right: ast.AST, mode: str = "equiv", pre: Optional[ast.AST] = None,
           extra_atoms: Sequence[str] = ()) -> Tuple[bool, Optional[Dict[str, int]], int]:
    """ mode: 'equiv' (same value everywhere) or 'implies' (left true => right true).
        Returns (holds, counterexample, assignments evaluated). """
    exprs = [e for e in (left, right, pre) if e is not None]
    locs = _location_atoms(exprs)
    names: List[str] = []
    for expr in exprs:
        for atom in atoms_of(expr):
            if atom in locs:
                continue
            if atom not in names:
                names.append(atom)
    for loc in locs:
        for suffix in (".start", ".end"):
            if loc + suffix not in names:
                names.append(loc + suffix)
    for atom in extra_atoms:
        if atom not in names:
            names.append(atom)
    if len(names) > 6:
        raise OutsideFragment(f"too many atoms for enumeration: {names}")
    const = max(max_const(e) for e in exprs)
    bound = len(names) * (min(const, 3) + 1) + 2
    count = 0
    for values in itertools.product(range(bound + 1), repeat=len(names)):
        env = dict(zip(names, values))
        if pre is not None and not evaluate(pre, env):
            continue
        count += 1
        lval, rval = evaluate(left, env), evaluate(right, env)
        if mode == "equiv":
            if isinstance(lval, bool) or isinstance(rval, bool):
                same = bool(lval) == bool(rval)
            else:
                same = lval == rval
            if not same:
                return False, env, count
        elif mode == "implies":
            if lval and not rval:
                return False, env, count
        else:
            raise ValueError(mode)
    if count == 0:
        raise OutsideFragment("precondition unsatisfiable in the box")
    return True, None, count


# -------------------------------------------------------------- affine forms
class Affine:
    """ sum(coeff * atom) + const with Fraction coefficients """

    def __init__(self, terms: Optional[Dict[str, Fraction]] = None, const: Any = 0) -> None:
        self.terms = {k: Fraction(v) for k, v in (terms or {}).items() if v != 0}
        self.const = Fraction(const)

    def __add__(self, other: "Affine") -> "Affine":
        terms = dict(self.terms)
        for key, val in other.terms.items():
            terms[key] = terms.get(key, Fraction(0)) + val
        return Affine(terms, self.const + other.const)

    def scale(self, factor: Any) -> "Affine":
        return Affine({k: v * factor for k, v in self.terms.items()}, self.const * factor)

    def __sub__(self, other: "Affine") -> "Affine":
        return self + other.scale(-1)

    def is_const(self) -> bool:
        return not self.terms

    def __eq__(self, other: object) -> bool:
        return isinstance(other, Affine) and self.terms == other.terms and self.const == other.const

    def __hash__(self) -> int:
        return hash((tuple(sorted(self.terms.items())), self.const))

    def __str__(self) -> str:
        parts = []
        for key in sorted(self.terms):
            coeff = self.terms[key]
            if coeff == 1:
                parts.append(f"+ {key}")
            elif coeff == -1:
                parts.append(f"- {key}")
            else:
                parts.append(f"{'+' if coeff > 0 else '-'} {abs(coeff)}*{key}")
        if self.const or not parts:
            parts.append(f"{'+' if self.const >= 0 else '-'} {abs(self.const)}")
        text = " ".join(parts)
        return text[2:] if text.startswith("+ ") else text


def affine(expr: ast.AST, env: Optional[Dict[str, Affine]] = None,
           atom_name: Optional[Callable[[ast.AST], Optional[str]]] = None) -> Affine:
    """ affine form of an expression; names bound in env are substituted;
        calls / subscripts / `len(x)` become opaque atoms named by their text
        (or by atom_name) """
    env = env or {}
    if isinstance(expr, ast.Constant) and isinstance(expr.value, (int, float)) and not isinstance(expr.value, bool):
        return Affine(const=Fraction(expr.value).limit_denominator(10 ** 6))
    if atom_name is not None:
        named = atom_name(expr)
        if named is not None:
            return Affine({named: Fraction(1)})
    if isinstance(expr, ast.Name) and expr.id in env:
        return env[expr.id]
    path = dotted(expr)
    if path is not None:
        if path in env:
            return env[path]
        return Affine({path: Fraction(1)})
    if isinstance(expr, ast.BinOp):
        if isinstance(expr.op, (ast.Add, ast.Sub)):
            left, right = affine(expr.left, env, atom_name), affine(expr.right, env, atom_name)
            return left + right if isinstance(expr.op, ast.Add) else left - right
        if isinstance(expr.op, ast.Mult):
            left, right = affine(expr.left, env, atom_name), affine(expr.right, env, atom_name)
            if left.is_const():
                return right.scale(left.const)
            if right.is_const():
                return left.scale(right.const)
        # anything else is an opaque atom, after normalising its operands' text
        return Affine({txt(expr): Fraction(1)})
    if isinstance(expr, ast.UnaryOp) and isinstance(expr.op, ast.USub):
        return affine(expr.operand, env, atom_name).scale(-1)
    if isinstance(expr, ast.UnaryOp) and isinstance(expr.op, ast.UAdd):
        return affine(expr.operand, env, atom_name)
    if isinstance(expr, (ast.Call, ast.Subscript, ast.IfExp)):
        if isinstance(expr, ast.Call) and dotted(expr.func) == "int" and len(expr.args) == 1:
            return affine(expr.args[0], env, atom_name)
        return Affine({txt(expr): Fraction(1)})
    raise OutsideFragment(f"not an arithmetic expression: {txt(expr)[:80]}")


def straight_line_env(stmts: Sequence[ast.stmt], env: Optional[Dict[str, Affine]] = None,
                      atom_name: Optional[Callable[[ast.AST], Optional[str]]] = None) -> Dict[str, Affine]:
    """ abstractly execute simple assignments of a block (no branching) """
    env = dict(env or {})
    for stmt in stmts:
        if isinstance(stmt, ast.Assign) and len(stmt.targets) == 1:
            target = stmt.targets[0]
            if isinstance(target, ast.Name):
                try:
                    env[target.id] = affine(stmt.value, env, atom_name)
                except OutsideFragment:
                    env[target.id] = Affine({txt(stmt.value): Fraction(1)})
            elif isinstance(target, ast.Tuple) and isinstance(stmt.value, ast.Tuple) \
                    and len(target.elts) == len(stmt.value.elts):
                vals = []
                for val in stmt.value.elts:
                    try:
                        vals.append(affine(val, env, atom_name))
                    except OutsideFragment:
                        vals.append(Affine({txt(val): Fraction(1)}))
                for tgt, val in zip(target.elts, vals):
                    if isinstance(tgt, ast.Name):
                        env[tgt.id] = val
        elif isinstance(stmt, ast.AnnAssign) and stmt.value is not None and isinstance(stmt.target, ast.Name):
            try:
                env[stmt.target.id] = affine(stmt.value, env, atom_name)
            except OutsideFragment:
                env[stmt.target.id] = Affine({txt(stmt.value): Fraction(1)})
        elif isinstance(stmt, ast.AugAssign) and isinstance(stmt.target, ast.Name) \
                and isinstance(stmt.op, (ast.Add, ast.Sub)):
            cur = env.get(stmt.target.id, Affine({stmt.target.id: Fraction(1)}))
            try:
                delta = affine(stmt.value, env, atom_name)
            except OutsideFragment:
                delta = Affine({txt(stmt.value): Fraction(1)})
            env[stmt.target.id] = cur + delta if isinstance(stmt.op, ast.Add) else cur - delta
    return env


def negate_compare(expr: ast.AST) -> ast.AST:
    return ast.UnaryOp(op=ast.Not(), operand=expr)


# ------------------------------------------------------- symbolic path walker
class Path:
    """ one path through straight-line code with if/else arms """
    def __init__(self, conds, env, ret, kind):
        self.conds = conds      # list of (test ast, polarity)
        self.env = env          # name -> Affine at the end of the path
        self.ret = ret          # returned expression (ast) or None
        self.kind = kind        # 'return' | 'raise' | 'fall' | 'loop'

    def cond_texts(self) -> List[str]:
        return [("" if pol else "not ") + txt(test) for test, pol in self.conds]


def sym_paths(stmts: Sequence[ast.stmt], env: Optional[Dict[str, Affine]] = None,
              conds: Optional[list] = None, limit: int = 256) -> List[Path]:
    """ enumerate the paths of a block made of assignments, if/else, return and raise;
        a loop ends the path with kind 'loop' (what follows is not straight-line) """
    env = dict(env or {})
    conds = list(conds or [])
    for index, stmt in enumerate(stmts):
        if isinstance(stmt, ast.Return):
            return [Path(conds, env, stmt.value, "return")]
        if isinstance(stmt, ast.Raise):
            return [Path(conds, env, None, "raise")]
        if isinstance(stmt, (ast.Continue, ast.Break)):
            return [Path(conds, env, None, "jump")]
        if isinstance(stmt, (ast.For, ast.While, ast.Try, ast.With)):
            return [Path(conds, env, None, "loop")]
        if isinstance(stmt, ast.If):
            rest = list(stmts[index + 1:])
            out: List[Path] = []
            for arm, pol in ((stmt.body, True), (stmt.orelse, False)):
                for sub in sym_paths(list(arm), env, conds + [(stmt.test, pol)], limit):
                    if sub.kind == "fall":
                        out.extend(sym_paths(rest, sub.env, sub.conds, limit))
                    else:
                        out.append(sub)
                    if len(out) > limit:
                        raise OutsideFragment("too many paths")
            return out
        env = straight_line_env([stmt], env)
    return [Path(conds, env, None, "fall")]


# ------------------------------------------------ expression-level symbolic execution
class _Subst(ast.NodeTransformer):
    def __init__(self, env: Dict[str, ast.AST]) -> None:
        self.env = env

    def visit_Name(self, node: ast.Name) -> ast.AST:  # noqa: N802
        if isinstance(node.ctx, ast.Load) and node.id in self.env:
            return copy.deepcopy(self.env[node.id])
        return node


def subst(expr: ast.AST, env: Dict[str, ast.AST]) -> ast.AST:
    return _Subst(env).visit(copy.deepcopy(expr))


def expr_paths(stmts: Sequence[ast.stmt], env: Optional[Dict[str, ast.AST]] = None,
               conds: Optional[list] = None, limit: int = 64):
    """ paths of a block of plain-name assignments and if/else arms, with every local replaced by the expression it
        holds on that path: a list of (conditions [(expr, truth)], env, kind) with kind 'fall', 'jump' (continue/break),
        'return' or 'raise'.  Augmented assignments become binary operations; statements that bind nothing (asserts,
        expression statements) are skipped; anything else that can assign is outside the fragment. """
    env = dict(env or {})
    conds = list(conds or [])
    for index, stmt in enumerate(stmts):
        if isinstance(stmt, ast.Return):
            return [(conds, env, "return")]
        if isinstance(stmt, ast.Raise):
            return [(conds, env, "raise")]
        if isinstance(stmt, (ast.Continue, ast.Break)):
            return [(conds, env, "jump")]
        if isinstance(stmt, ast.If):
            rest = list(stmts[index + 1:])
            test = subst(stmt.test, env)
            out = []
            for arm, pol in ((stmt.body, True), (stmt.orelse, False)):
                for sub_conds, sub_env, kind in expr_paths(list(arm), env, conds + [(test, pol)], limit):
                    if kind == "fall":
                        out.extend(expr_paths(rest, sub_env, sub_conds, limit))
                    else:
                        out.append((sub_conds, sub_env, kind))
                    if len(out) > limit:
                        raise OutsideFragment("too many paths")
            return out
        if isinstance(stmt, ast.Assign) and len(stmt.targets) == 1 and isinstance(stmt.targets[0], ast.Name):
            env[stmt.targets[0].id] = subst(stmt.value, env)
        elif isinstance(stmt, ast.AnnAssign) and isinstance(stmt.target, ast.Name) and stmt.value is not None:
            env[stmt.target.id] = subst(stmt.value, env)
        elif isinstance(stmt, ast.AugAssign) and isinstance(stmt.target, ast.Name):
            current = env.get(stmt.target.id, ast.Name(id=stmt.target.id, ctx=ast.Load()))
            env[stmt.target.id] = ast.BinOp(left=copy.deepcopy(current), op=stmt.op, right=subst(stmt.value, env))
        elif isinstance(stmt, (ast.Assert, ast.Expr, ast.Pass)):
            continue
        else:
            raise OutsideFragment(f"statement outside the fragment: {ast.unparse(stmt)[:60]}")
    return [(conds, env, "fall")]


def cond_env(stmts: Sequence[ast.stmt], env: Optional[Dict[str, ast.AST]] = None, keep=frozenset()) -> Dict[str, ast.AST]:
    """ the value every plain local holds after a block of assignments and if/else arms, as one (conditional) expression
        per name: arms that assign different values are joined into `A if T else B`.  Statements that bind nothing are
        skipped; a loop, try or with statement is outside the fragment. """
    env = dict(env or {})
    for st in stmts:
        if isinstance(st, ast.Assign) and len(st.targets) == 1 and isinstance(st.targets[0], ast.Name):
            if st.targets[0].id not in keep:
                env[st.targets[0].id] = subst(st.value, env)
        elif isinstance(st, ast.AnnAssign) and isinstance(st.target, ast.Name) and st.value is not None:
            if st.target.id not in keep:
                env[st.target.id] = subst(st.value, env)
        elif isinstance(st, ast.Assign) and len(st.targets) == 1 and isinstance(st.targets[0], ast.Tuple) \
                and isinstance(st.value, ast.Tuple) and len(st.value.elts) == len(st.targets[0].elts):
            values = [subst(v, env) for v in st.value.elts]
            for tgt, val in zip(st.targets[0].elts, values):
                if isinstance(tgt, ast.Name) and tgt.id not in keep:
                    env[tgt.id] = val
        elif isinstance(st, ast.If):
            yes, no = cond_env(st.body, env, keep), cond_env(st.orelse, env, keep)
            test = subst(st.test, env)
            for key in set(yes) | set(no):
                # a name bound on one arm only keeps, on the other, what it held before (itself when it came from outside)
                before = env.get(key, ast.Name(id=key, ctx=ast.Load()))
                a, b = yes.get(key, before), no.get(key, before)
                env[key] = a if txt(a) == txt(b) else ast.IfExp(test=test, body=a, orelse=b)
        elif isinstance(st, (ast.Return, ast.Assert, ast.Expr, ast.Pass, ast.Continue, ast.Break, ast.Raise)):
            continue
        elif isinstance(st, ast.Assign):
            continue   # stores into containers / attributes bind no local
        else:
            raise OutsideFragment(f"statement outside the fragment: {txt(st)[:60]}")
    return env
