""" asa: antiSMASH static analysis engine for properties C01-C20.

    Nothing in this package imports or executes code from the analysed
    repository; everything is decided from `ast` trees (and, for two rule
    families, from mypy's inferred types obtained by running mypy as a library
    over the sources).
"""
