""" Re-nesting: the mirror image of asa.inline.

    A refactoring may move a nested function of an anchored function to module level (or into a method), turning
    its closure variables into explicit parameters.  The rules address such functions as `outer.inner`; rather than
    teaching every rule both shapes, the module tree is normalised when it is loaded: when the reference tree had
    `outer.inner` (asa/reference_helpers.json, `__nested__` / `__nested_params__`) and the analysed tree does not,
    a private function that the reference tree did not have, that `outer` calls and whose name matches `inner`
    is copied back into `outer` as a nested function named `inner`:

    * a parameter that the reference `inner` did not have and that receives the same plain name at every call in
      `outer` becomes a closure variable again (renamed to the caller's name inside the body);
    * the calls in `outer` are rewritten to call the nested copy with the remaining arguments.

    Nothing is decided here: the copy is what the rules then analyse, with the helper's own line numbers.  When no
    candidate is found the anchor stays vanished (exit 2), as before. """

from __future__ import annotations

import ast
import copy
import json
import os
import re
from typing import Dict, List, Optional, Tuple

_REF: Optional[dict] = None


def _reference() -> dict:
    global _REF  # pylint: disable=global-statement
    if _REF is None:
        path = os.path.join(os.path.dirname(os.path.abspath(__file__)), "reference_helpers.json")
        try:
            with open(path, encoding="utf-8") as handle:
                _REF = json.load(handle)
        except (OSError, ValueError):
            _REF = {}
    return _REF


def _tokens(name: str) -> List[str]:
    return [t for t in re.split(r"_+", name.lower()) if t]


def _similar(a: str, b: str) -> bool:
    if a == b:
        return True
    short, long_ = sorted((a, b), key=len)
    return len(short) >= 4 and long_.startswith(short)


def _name_score(inner: str, candidate: str) -> float:
    want, have = _tokens(inner), _tokens(candidate)
    if not want or not have:
        return 0.0
    matched = sum(1 for t in want if any(_similar(t, h) for h in have))
    return matched / max(len(want), 1) - 0.05 * max(0, len(have) - len(want))


def _find(scope: ast.AST, name: str) -> Optional[ast.AST]:
    for node in getattr(scope, "body", []):
        if isinstance(node, (ast.FunctionDef, ast.AsyncFunctionDef, ast.ClassDef)) and node.name == name:
            return node
    return None


def _resolve(tree: ast.Module, qual: str) -> Tuple[Optional[ast.AST], Optional[ast.AST]]:
    """ (node, enclosing class or None) """
    scope: ast.AST = tree
    cls = None
    for part in qual.split("."):
        found = _find(scope, part)
        if found is None:
            return None, cls
        if isinstance(found, ast.ClassDef):
            cls = found
        scope = found
    return scope, cls


def _calls_of(outer: ast.AST, name: str, method: bool) -> List[ast.Call]:
    out = []
    for node in ast.walk(outer):
        if not isinstance(node, ast.Call):
            continue
        func = node.func
        if not method and isinstance(func, ast.Name) and func.id == name:
            out.append(node)
        elif method and isinstance(func, ast.Attribute) and func.attr == name and isinstance(func.value, ast.Name) \
                and func.value.id in ("self", "cls"):
            out.append(node)
    return out


def _references(outer: ast.AST, name: str, method: bool) -> int:
    """ uses of the helper's name that are not calls (passed as a key function, say) """
    count = 0
    callees = {id(c.func) for c in _calls_of(outer, name, method)}
    for node in ast.walk(outer):
        if id(node) in callees:
            continue
        if not method and isinstance(node, ast.Name) and node.id == name and isinstance(node.ctx, ast.Load):
            count += 1
        elif method and isinstance(node, ast.Attribute) and node.attr == name and isinstance(node.value, ast.Name) \
                and node.value.id in ("self", "cls"):
            count += 1
    return count


class _Rename(ast.NodeTransformer):
    def __init__(self, mapping: Dict[str, str]) -> None:
        self.mapping = mapping

    def visit_Name(self, node: ast.Name) -> ast.AST:  # noqa: N802
        if node.id in self.mapping:
            return ast.copy_location(ast.Name(id=self.mapping[node.id], ctx=node.ctx), node)
        return node


def _renest_one(tree: ast.Module, rel: str, qual: str, ref_params: List[str], known: set) -> bool:
    outer_qual, _, inner = qual.rpartition(".")
    outer, cls = _resolve(tree, outer_qual)
    if outer is None or not isinstance(outer, (ast.FunctionDef, ast.AsyncFunctionDef)):
        return False
    if _find(outer, inner) is not None:
        return False
    # candidates: private functions the reference tree did not have, called (or referenced) in outer
    candidates: List[Tuple[float, ast.FunctionDef, bool]] = []
    pools: List[Tuple[ast.AST, bool, str]] = [(tree, False, "")]
    if cls is not None:
        pools.append((cls, True, cls.name + "."))
    for scope, method, prefix in pools:
        for node in getattr(scope, "body", []):
            if not isinstance(node, ast.FunctionDef) or node is outer:
                continue
            if not node.name.startswith("_") or node.name.startswith("__"):
                continue
            if prefix + node.name in known and node.name.lstrip("_") != inner.lstrip("_"):
                continue
            if node.decorator_list and not (method and all(isinstance(d, ast.Name) and d.id == "staticmethod"
                                                           for d in node.decorator_list)):
                continue
            if not _calls_of(outer, node.name, method) and not _references(outer, node.name, method):
                continue
            score = _name_score(inner, node.name)
            if score >= 0.6:
                candidates.append((score, node, method))
    if not candidates:
        return False
    candidates.sort(key=lambda item: -item[0])
    if len(candidates) > 1 and candidates[0][0] == candidates[1][0]:
        return False
    _, helper, method = candidates[0]
    static = method and any(isinstance(d, ast.Name) and d.id == "staticmethod" for d in helper.decorator_list)
    args = helper.args
    if args.vararg or args.kwarg or args.posonlyargs:
        return False
    params = [a.arg for a in args.args]
    offset = 1 if method and not static and params and params[0] in ("self", "cls") else 0
    calls = _calls_of(outer, helper.name, method)
    # `partial(helper, a, b)` with plain names: the leading parameters are closure variables under another spelling
    partials = [n for n in ast.walk(outer) if isinstance(n, ast.Call) and not n.keywords and n.args
                and ast.unparse(n.func) in ("partial", "functools.partial") and _is_ref(n.args[0], helper.name, method)
                and all(isinstance(a, ast.Name) for a in n.args[1:])]
    bound = {tuple(a.id for a in n.args[1:]) for n in partials}  # type: ignore[attr-defined]
    if partials and not calls and len(bound) == 1 and _references(outer, helper.name, method) == len(partials) \
            and len(next(iter(bound))) <= len(params) - offset:
        closure = {params[offset + i]: name for i, name in enumerate(next(iter(bound)))}
        for node in ast.walk(outer):
            for field, value in ast.iter_fields(node):
                if isinstance(value, ast.AST) and any(value is c for c in partials):
                    setattr(node, field, ast.copy_location(ast.Name(id=inner, ctx=ast.Load()), value))
                elif isinstance(value, list):
                    for i, item in enumerate(value):
                        if any(item is c for c in partials):
                            value[i] = ast.copy_location(ast.Name(id=inner, ctx=ast.Load()), item)

        def drop_self_assign(stmts):
            out = []
            for st in stmts:
                if isinstance(st, ast.Assign) and len(st.targets) == 1 and isinstance(st.targets[0], ast.Name) \
                        and st.targets[0].id == inner and isinstance(st.value, ast.Name) and st.value.id == inner:
                    continue
                for field in ("body", "orelse", "finalbody"):
                    sub = getattr(st, field, None)
                    if isinstance(sub, list) and sub and isinstance(sub[0], ast.stmt):
                        setattr(st, field, drop_self_assign(sub) or [ast.copy_location(ast.Pass(), st)])
                out.append(st)
            return out
        outer.body = drop_self_assign(outer.body)
    elif _references(outer, helper.name, method):
        # the function itself is handed on (a sort key): every parameter stays a parameter
        closure: Dict[str, str] = {}
    else:
        closure = {}
        for index, name in enumerate(params):
            if index < offset or name in ref_params:
                continue
            # beyond the reference parameters: what does every call pass?
            passed = set()
            for call in calls:
                value = None
                pos = index - offset
                if pos < len(call.args):
                    value = call.args[pos]
                else:
                    for kw in call.keywords:
                        if kw.arg == name:
                            value = kw.value
                if isinstance(value, ast.Name):
                    passed.add(value.id)
                elif value is None and index - (len(params) - len(args.defaults)) >= 0:
                    passed.add(None)  # default used
                else:
                    passed.add(ast.dump(value) if value is not None else None)
            if len(passed) == 1:
                only = next(iter(passed))
                if isinstance(only, str) and only.isidentifier():
                    closure[name] = only
    new = copy.deepcopy(helper)
    new.name = inner
    new.decorator_list = []
    keep = [a for i, a in enumerate(new.args.args) if i >= offset and a.arg not in closure]
    n_defaults = len(new.args.defaults)
    first_default = len(new.args.args) - n_defaults
    new_defaults = [d for i, d in enumerate(new.args.defaults) if (first_default + i) >= offset
                    and new.args.args[first_default + i].arg not in closure]
    new.args.args = keep
    new.args.defaults = new_defaults
    if closure:
        rename = {k: v for k, v in closure.items() if k != v}
        if rename:
            new.body = [_Rename(rename).visit(stmt) for stmt in new.body]
    # rewrite the calls
    for call in calls:
        positional = []
        for pos, value in enumerate(call.args):
            index = pos + offset
            if index < len(params) and params[index] in closure:
                continue
            positional.append(value)
        call.args = positional
        call.keywords = [kw for kw in call.keywords if kw.arg not in closure]
        call.func = ast.copy_location(ast.Name(id=inner, ctx=ast.Load()), call.func)
    # other references (key=helper)
    for node in ast.walk(outer):
        for field, value in ast.iter_fields(node):
            if isinstance(value, ast.AST) and _is_ref(value, helper.name, method) and not any(value is c.func for c in calls):
                setattr(node, field, ast.copy_location(ast.Name(id=inner, ctx=ast.Load()), value))
            elif isinstance(value, list):
                for i, item in enumerate(value):
                    if isinstance(item, ast.AST) and _is_ref(item, helper.name, method):
                        value[i] = ast.copy_location(ast.Name(id=inner, ctx=ast.Load()), item)
    # `lambda x: inner(x)` left behind by the rewrite is `inner` itself
    class _Eta(ast.NodeTransformer):
        def visit_Lambda(self, node: ast.Lambda) -> ast.AST:  # noqa: N802
            self.generic_visit(node)
            body = node.body
            params = [a.arg for a in node.args.args]
            if isinstance(body, ast.Call) and isinstance(body.func, ast.Name) and body.func.id == inner and not body.keywords \
                    and not node.args.vararg and not node.args.kwarg and not node.args.kwonlyargs and not node.args.defaults \
                    and [a.id if isinstance(a, ast.Name) else None for a in body.args] == params:
                return ast.copy_location(ast.Name(id=inner, ctx=ast.Load()), node)
            return node
    outer.body = [_Eta().visit(stmt) for stmt in outer.body]
    # insert after the docstring
    at = 0
    if outer.body and isinstance(outer.body[0], ast.Expr) and isinstance(outer.body[0].value, ast.Constant) \
            and isinstance(outer.body[0].value.value, str):
        at = 1
    outer.body.insert(at, new)
    ast.fix_missing_locations(outer)
    return True


def _is_ref(node: ast.AST, name: str, method: bool) -> bool:
    if not method:
        return isinstance(node, ast.Name) and node.id == name and isinstance(node.ctx, ast.Load)
    return isinstance(node, ast.Attribute) and node.attr == name and isinstance(node.value, ast.Name) \
        and node.value.id in ("self", "cls")


def _fingerprint(func: ast.AST) -> set:
    return {n.attr for n in ast.walk(func) if isinstance(n, ast.Attribute)} | \
        {n.func.id for n in ast.walk(func) if isinstance(n, ast.Call) and isinstance(n.func, ast.Name)}


def _rename_nested(tree: ast.Module, rel: str, qual: str, known_nested: set, fingerprint: List[str]) -> bool:
    """ the reference tree's `outer.inner` is missing but `outer` holds a nested function the reference tree did not have
        whose body reads the same attributes and calls the same functions: it is `inner` under a new name """
    outer_qual, _, inner = qual.rpartition(".")
    outer, _ = _resolve(tree, outer_qual)
    if outer is None or not isinstance(outer, (ast.FunctionDef, ast.AsyncFunctionDef)) or not fingerprint:
        return False
    want = set(fingerprint)
    scored = []
    for node in outer.body:
        if isinstance(node, ast.FunctionDef) and f"{outer_qual}.{node.name}" not in known_nested:
            have = _fingerprint(node)
            union = want | have
            score = len(want & have) / len(union) if union else 0.0
            scored.append((score, node))
    scored.sort(key=lambda item: -item[0])
    if not scored or scored[0][0] < 0.6 or (len(scored) > 1 and scored[1][0] == scored[0][0]):
        return False
    node = scored[0][1]
    old = node.name
    node.name = inner
    for sub in ast.walk(outer):
        if isinstance(sub, ast.Name) and sub.id == old:
            sub.id = inner
    return True


def renest(tree: ast.Module, rel: str) -> List[str]:
    """ put hoisted nested functions back; returns the qualified names restored """
    ref = _reference()
    nested = ref.get("__nested__", {}).get(rel, [])
    if not nested:
        return []
    params = ref.get("__nested_params__", {}).get(rel, {})
    known = set(ref.get(rel, []))
    restored = []
    # outermost first, so that outer.a is there before outer.a.b is looked for
    for qual in sorted(nested, key=lambda q: q.count(".")):
        node, _ = _resolve(tree, qual)
        if node is not None:
            continue
        if _renest_one(tree, rel, qual, params.get(qual, []), known):
            restored.append(qual)
        elif _rename_nested(tree, rel, qual, set(nested), ref.get("__nested_fp__", {}).get(rel, {}).get(qual, [])):
            restored.append(qual)
    return restored
